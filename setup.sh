#!/bin/sh
# Builds the overlay venv /verif/.venv (offline): /venv's packages + /repo/src + z3/cvc5/crosshair.
# Idempotent; every check calls it first (cheap when the venv already exists).
set -e
HERE="$(cd "$(dirname "$0")" && pwd)"
VENV="$HERE/.venv"
STAMP="$VENV/.verif-ok"
if [ -f "$STAMP" ]; then exit 0; fi
(
  flock 9
  if [ -f "$STAMP" ]; then exit 0; fi
  rm -rf "$VENV"
  /venv/bin/python -m venv "$VENV"
  SP="$("$VENV/bin/python" -c 'import sysconfig; print(sysconfig.get_paths()["purelib"])')"
  printf '%s\n' "import site; site.addsitedir('/venv/lib/python3.12/site-packages')" > "$SP/verif_overlay.pth"
  printf '%s\n' "/repo/src" > "$SP/verif_repo.pth"
  PIP_NO_INDEX=1 "$VENV/bin/pip" install -q --no-index --find-links /opt/veriftools/wheels \
      z3-solver cvc5 crosshair-tool jsonschema >/dev/null 2>&1 || \
  PIP_NO_INDEX=1 "$VENV/bin/pip" install --no-index --find-links /opt/veriftools/wheels \
      z3-solver cvc5 crosshair-tool jsonschema
  "$VENV/bin/python" -c 'import z3, cvc5, crosshair, classy_blocks, numpy, scipy'
  touch "$STAMP"
) 9>"$HERE/.venv.lock"
