"""C04 - cell-size distribution matches on shared edges and honours 'preserve'."""
from fractions import Fraction

import numpy as np

import classy_blocks as cb
from classy_blocks.grading.chop import Chop

from . import c14, g1

PROPERTY = "C04"
META = {
    "choice_sets": True,
    "explanation": "Two lofts stacked in z share a face; the four x-edges of the lower block and the two free x-edges of the "
                   "upper block have independent symbolic lengths; the lower block is chopped along x with symbolic "
                   "parameters and a preserve mode, the upper block (aligned, or numbered with its x axis reversed) gets "
                   "its grading by propagation. After the real Mesh.grade() the harness decodes every wire's grading "
                   "with its own progression law: coincident wires must describe the same physical cell sequence "
                   "(identical, or reversed with reciprocal expansions), the preserved first/last cell size must be "
                   "realised on all four edges of the chopped block and on the propagated block at the geometrically "
                   "same end, and a block may be written with simpleGrading only if z3 can show its four gradings equal.",
    "bounds": {"edge lengths": "1 + d_k in [0.7, 1.5]; per job all six pairwise distinct (gaps >= 0.01, symbolic), all equal (one symbol), or only the fourth edge of the chopped block different", "count": "concrete 2 or 3 (quick), up to 4 "
               "(thorough)", "preserve": "start_size, end_size, c2c_expansion", "sections": "1 or 2 (length_ratio symbolic)",
               "neighbour": "aligned / x-reversed numbering"},
    "outside": ["curved edges (arc length is transcendental in the end points)", "counts above 4", "counts derived from sizes "
                "(C03)"],
    "assumptions": ["scipy.optimize.brentq replaced by its contract (see C03)"],
    "must_reach": ["graded"],
}

XE = [(0, 1), (3, 2), (7, 6), (4, 5)]       # x edges of the canonical numbering (start corner has x = 0)


def install():
    from symx import stubs_opt

    META.setdefault("stubs", []).append(stubs_opt.install_brentq_model())


install_conc = lambda: None  # noqa


def _points(sx, lengths="distinct"):
    """six x-edge lengths 1 + d_k: A's edges 0-1, 3-2, 7-6, 4-5 and B's free edges; relation fixed per job so that the
    'are two gradings equal within TOL' decisions do not multiply paths"""
    d0 = sx.real("d0", Fraction(-3, 10), Fraction(1, 4))
    if lengths == "equal":
        d = [d0] * 6
    elif lengths == "last-differs":
        g = sx.real("g3", Fraction(1, 100), Fraction(1, 20))
        d = [d0, d0, d0, d0 + g, d0, d0]
    else:
        d = [d0]
        for k in range(1, 6):
            d.append(d[-1] + sx.real(f"g{k}", Fraction(1, 100), Fraction(1, 20)))
        d = [d[i] for i in (2, 0, 4, 1, 5, 3)]     # not sorted along the block
    A = [[sx.const(c[0]), sx.const(c[1]), sx.const(c[2])] for c in g1.CORNERS]
    for k, corner in enumerate((1, 2, 6, 5)):
        A[corner][0] = sx.const(1) + d[k]
    B = [list(A[4]), list(A[5]), list(A[6]), list(A[7]),
         [sx.const(0), sx.const(0), sx.const(2)], [sx.const(1) + d[4], sx.const(0), sx.const(2)],
         [sx.const(1) + d[5], sx.const(1), sx.const(2)], [sx.const(0), sx.const(1), sx.const(2)]]
    return sx.arr(A), sx.arr(B), d


def _loft(pts):
    return cb.Loft(cb.Face(pts[:4]), cb.Face(pts[4:]))


def _root(sx, T, m):
    if m == 1:
        return T
    if sx.sym:
        from symx.core import R, _root
        return _root(R.lift(T), m)
    return float(T) ** (1.0 / m)


def cell_sizes(sx, length, spec):
    """physical cell sizes described by a grading specification [[length ratio, count, total expansion], ...]"""
    sizes = []
    for ratio, count, total in spec:
        n = int(count)
        ell = length * ratio
        if n == 1:
            sizes.append(ell)
            continue
        r = _root(sx, total, n - 1)
        geo = sum(_pw(r, i) for i in range(n))
        s0 = ell / geo
        sizes += [s0 * _pw(r, i) for i in range(n)]
    return sizes


def _pw(x, n):
    out = 1
    for _ in range(n):
        out = out * x
    return out


def _wire_between(block, p, q, sx):
    """the wire of `block` whose end points are at positions p and q, with its direction flag"""
    for w in block.wire_list:
        a, b = w.vertices[0].position, w.vertices[1].position
        if _same(a, p) and _same(b, q):
            return w, False
        if _same(a, q) and _same(b, p):
            return w, True
    raise AssertionError("wire not found")


def _same(a, b):
    return all(_eqv(x, y) for x, y in zip(a, b))


def _eqv(x, y):
    if hasattr(x, "p") or hasattr(y, "p"):
        from symx.core import R
        return not (R.lift(x) - R.lift(y)).p
    return abs(float(x) - float(y)) < 1e-12


def run(sx, n, preserve, mode, flipped, sections=1, lengths="distinct", move=False):
    A, B, d = _points(sx, lengths)
    opA = _loft(A)
    if flipped:
        ridx = next(k for k, m in enumerate(g1.ROTS) if list(np.diag(m)) == [-1, -1, 1])
        perm = c14.hex_perm(ridx)
        Bn = sx.arr([B[perm[i]] for i in range(8)])
    else:
        Bn = B
    opB = _loft(Bn)
    # chop A along x
    kws = []
    if sections == 1:
        ratios = [None]
    else:
        r1 = sx.real("ratio", Fraction(1, 4), Fraction(3, 4))
        ratios = [r1, 1 - r1]
    for si, ratio in enumerate(ratios):
        kw = {"count": n, "preserve": preserve}
        if ratio is not None:
            kw["length_ratio"] = ratio
        if mode == "size":
            # sizes small enough that count*size < every edge (section) length: expanding gradings, no bracket forks
            hi = Fraction(3, 10) / (n - 1) / (2 if sections == 2 else 1)
            if preserve == "end_size":
                kw["end_size"] = sx.real(f"size{si}", hi / 4, hi)
            else:
                kw["start_size"] = sx.real(f"size{si}", hi / 4, hi)
        elif mode == "total":
            # count & total expansion given, a size preserved: the size follows from the chop on the average edge length
            kw["total_expansion"] = sx.real(f"T{si}", Fraction(1, 3), 3)
        else:
            kw["c2c_expansion"] = sx.real(f"c{si}", Fraction(1, 2), 2)
        kws.append(kw)
        opA.chop(0, **kw)
    for op in (opA, opB):
        op.chop(1, count=2)
    opA.chop(2, count=2)
    opB.chop(2, count=2)
    mesh = cb.Mesh()
    mesh.add(opA)
    mesh.add(opB)
    mesh.assemble()
    from symx.core import NaNProduced
    try:
        mesh.grade()
    except (ValueError, ZeroDivisionError, NaNProduced) as e:
        sx.reach("rejected")
        return "rejected:" + type(e).__name__
    if move:
        # the mesh is graded, its vertices are moved (x stretched by a factor that grows with z: every x edge gets another
        # length), and it is graded again: the gradings must be those of the present geometry
        def moved(p):
            return np.array([p[0] * (1.5 + 0.2 * p[2]), p[1], p[2]], dtype=p.dtype)
        for v in mesh.vertices:
            v.move_to(moved(v.position))
        A = np.array([moved(p) for p in A], dtype=A.dtype)
        B = np.array([moved(p) for p in B], dtype=B.dtype)
        mesh.grade()
    sx.reach("graded")
    bA, bB = mesh.blocks
    tag = f"n={n},{preserve},{mode},{'flipped' if flipped else 'aligned'},sections={sections}"
    # ---- (a) coincident wires describe the same physical cells
    for (i, j) in ((7, 6), (4, 5)):
        wA, _ = _wire_between(bA, A[i], A[j], sx)
        wB, _ = _wire_between(bB, A[i], A[j], sx)
        LA = A[j][0] - A[i][0]
        sA = cell_sizes(sx, LA, _oriented(wA, A[i]))
        sB = cell_sizes(sx, LA, _oriented(wB, A[i]))
        ok = len(sA) == len(sB)
        sx.prove(sx.all([ok] + ([sx.close(x, y, 1e-7) for x, y in zip(sA, sB)] if ok else [])),
                 f"{tag}: the shared edge {i}-{j} carries the same cell sizes in both blocks", f"C04:shared-edge:{_cls(preserve, flipped, sections)}")
    # ---- (b) preserved size realised on all x edges of A and of B, at the geometrically same end (x = 0 side = start)
    if preserve in ("start_size", "end_size") and sections == 1 and mode == "size":
        want = kws[0]["start_size" if preserve == "start_size" else "end_size"]
        # the chop resolves the size on the average length; with count & size given the resolved size is the given one
        conds = []
        for blk, pts in ((bA, A), (bB, B)):
            for (i, j) in XE:
                w, _ = _wire_between(blk, pts[i], pts[j], sx)
                L = pts[j][0] - pts[i][0]
                cells = cell_sizes(sx, L, _oriented(w, pts[i]))
                got = cells[0] if preserve == "start_size" else cells[-1]
                conds.append(sx.close(got, want, 1e-7))
        if move:
            sx.prove(sx.all(conds[:4]), f"{tag}: graded again after its vertices moved, the chopped block has the preserved "
                     f"{preserve} on its four edges (present lengths)", f"C04:preserve:after-move:chopped:{_cls(preserve, flipped, sections)}")
            sx.prove(sx.all(conds[4:]), f"{tag}: graded again after its vertices moved, the block the chop propagates to has the "
                     f"preserved {preserve} on its four edges (present lengths)",
                     f"C04:preserve:after-move:propagated:{_cls(preserve, flipped, sections)}")
            return "graded"
        sx.prove(sx.all(conds), f"{tag}: the preserved {preserve} is realised on the four edges of the chopped block and of the "
                 "block it propagates to, at the same geometric end", f"C04:preserve:{_cls(preserve, flipped, sections)}")
    if preserve in ("start_size", "end_size") and sections == 1 and mode == "total":
        got = []
        for blk, pts in ((bA, A), (bB, B)):
            for (i, j) in XE:
                w, _ = _wire_between(blk, pts[i], pts[j], sx)
                cells = cell_sizes(sx, pts[j][0] - pts[i][0], _oriented(w, pts[i]))
                got.append(cells[0] if preserve == "start_size" else cells[-1])
        sx.prove(sx.all([sx.close(g, got[0], 1e-7) for g in got[1:]]), f"{tag}: with count & total expansion given and "
                 f"{preserve} preserved, all eight x edges get the same {preserve} (the one resolved on the chopped block's "
                 "average edge)", f"C04:preserve:total:{_cls(preserve, flipped, sections)}")
    # ---- (c) simpleGrading only if the four gradings are equal
    for name, blk, pts in (("chopped", bA, A), ("propagated", bB, B)):
        text = blk.format_grading()
        if text.startswith("simpleGrading"):
            specs = []
            for (i, j) in XE:
                w, _ = _wire_between(blk, pts[i], pts[j], sx)
                specs.append(_oriented(w, pts[i]))
            conds = []
            for sp in specs[1:]:
                conds.append(len(sp) == len(specs[0]))
                for a, b in zip(sp, specs[0]):
                    conds += [sx.close(a[0], b[0], 1e-6), a[1] == b[1], sx.close(a[2], b[2], 1e-5)]
            sx.prove(sx.all(conds), f"{tag}: the {name} block is written with simpleGrading only if its four x gradings are equal",
                     f"C04:simple-grading:{name}")
        sx.note(f"grading_{name}", text.split(" ")[0])
    return "graded"


def run_chain3(sx, preserve, flip_middle):
    """three stacked blocks A (chopped along x, a size preserved) -> B (unchopped, optionally numbered with x and y
    reversed) -> C (unchopped, numbered like A): the preserved size is realised at the same geometric end in all three.
    Concrete geometry (every x edge has another length), the preserved size is the only input; ground twins only."""
    size = sx.real("size", Fraction(1, 50), Fraction(2, 25))
    if sx.sym:
        return "skip"

    def box(z0, lens, flip=False):
        b = [[0, 0, z0], [lens[0], 0, z0], [lens[1], 1, z0], [0, 1, z0]]
        t = [[0, 0, z0 + 1], [lens[2], 0, z0 + 1], [lens[3], 1, z0 + 1], [0, 1, z0 + 1]]
        if flip:
            b, t = [b[2], b[3], b[0], b[1]], [t[2], t[3], t[0], t[1]]
        return cb.Loft(cb.Face(b), cb.Face(t))
    A, B, C = box(0, [1, 1.1, 1.2, 1.3]), box(1, [1.2, 1.3, 1.4, 1.5], flip_middle), box(2, [1.4, 1.5, 1.6, 1.7])
    A.chop(0, count=5, preserve=preserve, **{preserve: float(size)})
    A.chop(1, count=2)
    for op in (A, B, C):
        op.chop(2, count=2)
    mesh = cb.Mesh()
    for op in (A, B, C):
        mesh.add(op)
    mesh.assemble()
    mesh.grade()
    sx.reach("graded")
    for name, blk in zip("ABC", mesh.blocks):
        ok = True
        seen = []
        for w in blk.axes[0].wires.wires:
            p, q = w.vertices[0].position, w.vertices[1].position
            start = p if abs(float(p[0])) < 1e-9 else q
            cells = cell_sizes(sx, float(abs(q[0] - p[0])), _oriented(w, start))
            got = cells[0] if preserve == "start_size" else cells[-1]
            seen.append(round(float(got), 5))
            ok = ok and abs(float(got) - float(size)) < 1e-6
        sx.prove(ok, f"chain of three, middle block {'reversed' if flip_middle else 'aligned'}: block {name} has the preserved "
                 f"{preserve} on its four x edges, at the same geometric end as the chopped block",
                 f"C04:preserve:chain3:{name}:{preserve}:{'reversed-middle' if flip_middle else 'aligned'}", info={"sizes": seen, "want": float(size)})
    return "graded"


def _oriented(wire, start_pos):
    """grading specification of the wire as seen from `start_pos`"""
    spec = [list(s) for s in wire.grading.specification]
    if _same(wire.vertices[0].position, start_pos):
        return spec
    out = []
    for ratio, count, total in reversed(spec):
        out.append([ratio, count, 1 / total])
    return out


def _cls(preserve, flipped, sections):
    return f"{preserve}:{'flipped' if flipped else 'aligned'}:{sections}-section"


def jobs(tier, seed):
    js = []
    counts = (2, 3) if tier == "quick" else (2, 3, 4)
    for n in counts:
        for flipped in (False, True):
            for preserve in ("start_size", "end_size", "c2c_expansion"):
                for mode in (("size", "c2c") if preserve != "c2c_expansion" else ("c2c", "size")):
                    if tier == "quick" and n == 3 and preserve != "c2c_expansion":
                        continue
                    if tier == "quick" and mode == "c2c" and preserve != "c2c_expansion":
                        continue        # size preserved from a ratio-defined chop: rational start sizes, minutes of NRA
                    js.append({"name": f"n={n}|{preserve}|{mode}|flipped={flipped}", "fn": "run",
                               "params": {"n": n, "preserve": preserve, "mode": mode, "flipped": flipped}})
    for flipped in (False, True):
        for preserve in ("start_size", "end_size"):
            # (ground twin only: with symbolic edge lengths AND a symbolic total expansion the solver does not decide the
            #  bracket comparisons of the size relations within minutes)
            js.append({"name": f"n=2|{preserve}|total|flipped={flipped}|ground twin only", "fn": "run", "symbolic": False,
                       "params": {"n": 2, "preserve": preserve, "mode": "total", "flipped": flipped}})
    for preserve in ("start_size", "end_size"):
        js.append({"name": f"n=2|{preserve}|size|flipped=False|graded, moved, graded again|ground twin only", "fn": "run",
                   "symbolic": False, "params": {"n": 2, "preserve": preserve, "mode": "size", "flipped": False, "move": True}})
    chain3 = [{"name": f"chain of three|{preserve}|middle block reversed={fm}|ground twin only", "fn": "run_chain3", "symbolic": False,
               "params": {"preserve": preserve, "flip_middle": fm}, "budget_s": 60}
              for preserve in ("start_size", "end_size") for fm in (False, True)]
    for flipped in (False, True):
        js.append({"name": f"two-sections|n=2|c2c|flipped={flipped}", "fn": "run",
                   "params": {"n": 2, "preserve": "c2c_expansion", "mode": "c2c", "flipped": flipped, "sections": 2}})
        if tier == "thorough":
            js.append({"name": f"two-sections|n=2|start_size|flipped={flipped}", "fn": "run",
                       "params": {"n": 2, "preserve": "start_size", "mode": "size", "flipped": flipped, "sections": 2}})
    out = []
    for j in js:
        for lengths in ("distinct", "equal", "last-differs"):
            if lengths != "distinct" and (j["params"].get("sections", 1) == 2 or j["params"]["n"] == 3) and tier == "quick":
                continue
            jj = {"name": j["name"] + f"|lengths={lengths}", "fn": "run", "params": dict(j["params"], lengths=lengths)}
            if j.get("symbolic") is False:
                jj["symbolic"] = False
            out.append(jj)
    js = out + chain3
    for j in js:
        j["budget_s"] = 280 if tier == "quick" else 1500
        j["timeout_ms"] = 20000 if tier == "quick" else 120000
    return js
