"""C20 - construction and life-cycle preconditions are enforced symmetrically."""
import numpy as np

import classy_blocks as cb
from classy_blocks.base import exceptions as exc
from classy_blocks.construct.edges import Arc, Project
from classy_blocks.construct.shape import ShapeCreationError as LoftShapeError
from classy_blocks.grading.chop import Chop
from classy_blocks.grading.grading import Grading
from classy_blocks.optimize.grid import HexGrid, InvalidLinkError, NoJunctionError
from classy_blocks.optimize.junction import ClampExistsError
from classy_blocks.util.frame import Frame

PROPERTY = "C20"
TOL = 1e-7
META = {
    "explanation": "One harness per documented precondition; the violating quantity (index, list length, ratio, radius, "
                   "lean of the radius vector along the axis, chain length, position offset) is symbolic on both sides "
                   "of the boundary. On every path where the call is accepted z3 must refute 'the precondition is "
                   "violated (with margin)'; on every path where it is rejected z3 must refute 'the arguments conform "
                   "(with margin)'.",
    "bounds": {"indices": "[-3, 10]", "list lengths": "0..6", "reals": "ranges straddling each boundary; must-raise only "
               "beyond a margin (2*TOL for tolerances, 1e-6 relative for radii), must-accept only inside TOL/2"},
    "outside": ["non-numeric argument types", "what an accepted constructor builds (C11)"],
    "assumptions": ["in symbolic mode the shape constructor below the argument check is cut (RoundSolidShape.__init__ "
                    "replaced by a marker): only the precondition decision is explored; the concrete replay runs the "
                    "uncut constructor"],
    "must_reach": ["accepted", "rejected"],
}

REJECT = (exc.ShapeCreationError, exc.CornerPairError, ValueError, KeyError, RuntimeError, IndexError, TypeError,
          LoftShapeError, ClampExistsError, NoJunctionError, InvalidLinkError)


class _Accepted(BaseException):
    """marker: the argument check was passed (symbolic mode cuts the construction below it)"""


_CUT = {"on": False}


def install():
    import classy_blocks.construct.shapes.round as RD
    from symx import stubs_opt

    META.setdefault("stubs", []).append(stubs_opt.install_clamp_init_model())

    orig = RD.RoundSolidShape.__init__

    def cut_init(self, *a, **k):
        if _CUT["on"]:
            raise _Accepted()
        return orig(self, *a, **k)

    RD.RoundSolidShape.__init__ = cut_init


def judge(sx, what, key, call, violates, conforms, cut=False):
    """violates / conforms: conditions (with margins) under which the call must be rejected / accepted"""
    _CUT["on"] = cut and sx.sym
    try:
        call()
        outcome = "accepted"
    except _Accepted:
        outcome = "accepted"
    except ZeroDivisionError:
        # symbolic mode only: a NaN/Inf-producing operation (numpy would continue with nan): neither accepted nor rejected
        outcome = "nan"
    except REJECT as e:
        outcome = "rejected"
        sx.note("exception", type(e).__name__)
    finally:
        _CUT["on"] = False
    sx.reach(outcome)
    if outcome == "nan":
        sx.prove(sx.neg(conforms), f"{what}: conforming arguments do not produce NaN", f"{key}:nan-conforming")
    elif outcome == "accepted":
        sx.prove(sx.neg(violates), f"{what}: accepted only if the precondition is not violated", f"{key}:accepted-violation")
    else:
        sx.prove(sx.neg(conforms), f"{what}: rejected only if the arguments do not conform", f"{key}:rejected-conforming")
    return outcome


def _in(v, lo, hi):
    return lo <= v <= hi


# ---- cases -------------------------------------------------------------------------------------------
def run_face_shape(sx):
    n = sx.choice("n_points", 7)
    m = 2 + sx.choice("n_coords", 3)
    ne = sx.choice("n_edges", 8)  # 7 == None
    pts = [[float(i + j) for j in range(m)] for i in range(n)]
    edges = None if ne == 7 else [None] * ne
    bad = (n != 4) or (m != 3) or (edges is not None and ne != 4)
    return judge(sx, f"Face({n} points x {m} coords, edges={'None' if edges is None else ne})", "C20:face-shape",
                 lambda: cb.Face(pts, edges), bad, not bad)


SQ = [(0, 0, 0), (1, 0, 0), (1, 1, 0), (0, 1, 0)]


def run_corner_index(sx, api):
    c = sx.integer("corner", -5, 10)
    ci = int(c)
    box = cb.Box([0, 0, 0], [1, 1, 1])
    # a precondition is a property of the call, not of the state the entity happens to be in: fresh entities and ones that
    # already carry projections / curved edges / chops
    prepared = sx.flag("prepared")
    face = cb.Face(SQ)
    if prepared:
        face.project("earlier", edges=True, points=True)
        box.project_side("top", "earlier", edges=True, points=True)
        box.project_side("front", "earlier", edges=True, points=True)
        if api != "Block.chop":
            for k in range(4):
                box.add_side_edge(k, Arc([-0.2 + k % 2, -0.2 + k // 2, 0.5]))
        for ax in range(3):
            box.chop(ax, count=2)
    if api == "Face.add_edge":
        call, lo, hi = (lambda: face.add_edge(ci, Arc([0.5, -0.2, 0]))), 0, 3
    elif api == "Face.project_edge":
        call, lo, hi = (lambda: face.project_edge(ci, "geo")), 0, 3
    elif api == "Operation.add_side_edge":
        call, lo, hi = (lambda: box.add_side_edge(ci, Arc([-0.2, 0, 0.5]))), 0, 3
    elif api == "Operation.project_corner":
        call, lo, hi = (lambda: box.project_corner(ci, "geo")), 0, 7
    elif api == "Operation.chop":
        call, lo, hi = (lambda: box.chop(ci, count=3)), 0, 2
    elif api == "Block.chop":
        mesh = cb.Mesh()
        mesh.add(box)
        mesh.assemble()
        call, lo, hi = (lambda: mesh.blocks[0].chop(ci, Chop(count=3))), 0, 2
    else:
        raise KeyError(api)
    bad = not _in(ci, lo, hi)
    return judge(sx, f"{api}({ci}){' on an entity that already carries projections, edges and chops' if prepared else ''}",
                 f"C20:index:{api}", call, bad, not bad)


EDGES = {frozenset(p) for p in [(0, 1), (1, 2), (2, 3), (3, 0), (4, 5), (5, 6), (6, 7), (7, 4), (0, 4), (1, 5), (2, 6), (3, 7)]}


def run_corner_pair(sx, api):
    c1 = int(sx.integer("c1", -2, 9))
    c2 = int(sx.integer("c2", -2, 9))
    box = cb.Box([0, 0, 0], [1, 1, 1])
    if api == "Operation.project_edge":
        call = lambda: box.project_edge(c1, c2, "geo")
    elif api == "Frame.add_beam":
        fr = Frame()
        call = lambda: fr.add_beam(c1, c2, "x")
    elif api == "Block.add_edge":
        mesh = cb.Mesh()
        mesh.add(box)
        mesh.assemble()
        blk = mesh.blocks[0]
        call = lambda: blk.add_edge(c1, c2, blk.wires[0][1].edge)
    else:
        raise KeyError(api)
    ok = frozenset((c1, c2)) in EDGES and _in(c1, 0, 7) and _in(c2, 0, 7)
    return judge(sx, f"{api}({c1},{c2})", f"C20:corner-pair:{api}", call, not ok, ok)


def run_project_labels(sx, api):
    n = sx.choice("n_labels", 5)
    labels = [f"g{i}" for i in range(n)]
    if api == "Project":
        call = lambda: Project(labels)
    elif api == "add_label":
        def call():
            p = Project(labels[:1])
            for lab in labels[1:]:
                p.add_label(lab)
    else:
        box = cb.Box([0, 0, 0], [1, 1, 1])

        def call():
            if not labels:
                raise ValueError("nothing to project")
            for lab in labels:
                box.project_edge(1, 2, lab)
    bad = n == 0 or n > 2
    return judge(sx, f"{api} with {n} surfaces", f"C20:project-labels:{api}", call, bad, not bad)


def run_length_ratio(sx):
    r = sx.real("length_ratio", -1, 2)
    g = Grading(sx.const(2.0))
    bad = sx.any([r <= sx.const(-1e-9), r >= sx.const(1 + 1e-9)])
    good = sx.all([r >= sx.const(1e-9), r <= sx.const(1)])
    return judge(sx, "Grading.add_chop(length_ratio)", "C20:length-ratio",
                 lambda: g.add_chop(Chop(length_ratio=r, count=4)), bad, good)


def _lean_case(sx, cls):
    """radius vector leaning eps along the axis; must be rejected for |axis . radius| > 2 TOL"""
    eps = sx.real("lean", -1, 1)
    h = sx.real("height", 0.5, 3)
    rad = sx.real("radius", 0.2, 2)
    a1 = sx.vec(0.5, -1.0, 0.25)
    a2 = a1 + sx.vec(0, 0, 1) * h
    rp = a1 + sx.vec(1, 0, 0) * rad + sx.vec(0, 0, 1) * eps
    dot = h * eps   # axis . radius vector, exactly
    bad = sx.any([dot > sx.const(2 * TOL), dot < sx.const(-2 * TOL)])
    good = sx.all([dot <= sx.const(TOL / 2), dot >= sx.const(-TOL / 2)])
    return a1, a2, rp, bad, good


def run_perpendicular(sx, shape):
    a1, a2, rp, bad, good = _lean_case(sx, shape)
    if shape == "Cylinder":
        call = lambda: cb.Cylinder(a1, a2, rp)
    elif shape == "SemiCylinder":
        call = lambda: cb.SemiCylinder(a1, a2, rp)
    elif shape == "Frustum":
        call = lambda: cb.Frustum(a1, a2, rp, 0.3)
    else:
        raise KeyError(shape)
    return judge(sx, f"{shape}(radius vector leaning along the axis)", f"C20:perpendicular:{shape}", call, bad, good, cut=True)


def run_annulus(sx, what):
    c = sx.vec(0.5, -1.0, 0.25)
    if what == "perpendicular":
        eps = sx.real("lean", -1, 1)
        ro = sx.vec(1.5, -1.0, 0.25) + sx.vec(0, 0, 1) * eps
        bad = sx.any([eps > sx.const(2 * TOL), eps < sx.const(-2 * TOL)])
        good = sx.all([eps <= sx.const(TOL / 2), eps >= sx.const(-TOL / 2)])
        call = lambda: cb.construct.flat.sketches.annulus.Annulus(c, ro, [0, 0, 1], 0.4, 4)
        return judge(sx, "Annulus(radius vector leaning along the normal)", "C20:perpendicular:Annulus", call, bad, good)
    rin = sx.real("inner_radius", 0.1, 2)
    ro = sx.vec(1.5, -1.0, 0.25)   # outer radius 1
    bad = rin >= sx.const(1 + 1e-6)
    good = rin <= sx.const(1 - 1e-6)
    if what == "radii":
        call = lambda: cb.construct.flat.sketches.annulus.Annulus(c, ro, [0, 0, 1], rin, 4)
    else:
        call = lambda: cb.ExtrudedRing(c, c + np.array([0, 0, 1.0]), ro, rin, 4)
    return judge(sx, f"{what}: inner radius vs outer radius 1", f"C20:inner-outer:{what}", call, bad, good)


_SRC = {}


def _source(kind):
    if True:
        if kind == "ring":
            _SRC[kind] = cb.ExtrudedRing([0, 0, 0], [0, 0, 1], [1, 0, 0], 0.5, 4)
        else:
            _SRC[kind] = cb.Cylinder([0, 0, 0], [0, 0, 1], [1, 0, 0])
    return _SRC[kind]


def run_chain(sx, shape, start_face=False):
    src = _source("ring" if shape == "ExtrudedRing" else "cyl")   # built outside the cut
    length = sx.real("length", -2, 2)
    bad = length <= sx.const(-1e-6)
    good = length >= sx.const(1e-3)
    if shape == "Cylinder":
        call = lambda: cb.Cylinder.chain(src, length, start_face)
    elif shape == "Frustum":
        call = lambda: cb.Frustum.chain(src, length, 0.4, start_face)
    else:
        call = lambda: cb.ExtrudedRing.chain(src, length, start_face)
        return judge(sx, f"{shape}.chain(length)", f"C20:chain-length:{shape}", call, bad, good, cut=False) \
            if not sx.sym else _chain_ring_sym(sx, src, length, start_face, bad, good)
    return judge(sx, f"{shape}.chain(length, start_face={start_face})", f"C20:chain-length:{shape}", call, bad, good, cut=True)


def _chain_ring_sym(sx, src, length, start_face, bad, good):
    # ExtrudedRing has no cut point below the check; stop right after the check by cutting the Annulus constructor
    import classy_blocks.construct.shapes.rings as RG

    orig = RG.Annulus

    class Cut:
        def __init__(self, *a, **k):
            raise _Accepted()
    RG.Annulus = Cut
    try:
        return judge(sx, "ExtrudedRing.chain(length)", "C20:chain-length:ExtrudedRing",
                     lambda: cb.ExtrudedRing.chain(src, length, start_face), bad, good)
    finally:
        RG.Annulus = orig


def run_contract(sx):
    src = _source("ring")
    r = sx.real("inner_radius", -1, 1)
    bad = sx.any([r <= sx.const(-1e-9), r >= sx.const(0.5 + 1e-6)])
    good = sx.all([r >= sx.const(1e-3), r <= sx.const(0.5 - 1e-6)])
    if sx.sym:
        import classy_blocks.construct.shapes.rings as RG

        orig = RG.Annulus

        class Cut:
            def __init__(self, *a, **k):
                raise _Accepted()
        RG.Annulus = Cut
        try:
            return judge(sx, "ExtrudedRing.contract(inner_radius) of a ring with inner radius 0.5", "C20:contract",
                         lambda: cb.ExtrudedRing.contract(src, r), bad, good)
        finally:
            RG.Annulus = orig
    return judge(sx, "ExtrudedRing.contract(inner_radius) of a ring with inner radius 0.5", "C20:contract",
                 lambda: cb.ExtrudedRing.contract(src, r), bad, good)


def run_face_counts(sx):
    n1 = 1 + sx.choice("nx1", 3)
    n2 = 1 + sx.choice("nx2", 3)
    mids = [sx.choice("nxm1", 4), sx.choice("nxm2", 4)]  # 0 = absent
    s1 = cb.Grid([0, 0, 0], [1, 1, 0], n1, 1)
    s2 = cb.Grid([0, 0, 1], [1, 1, 1], n2, 1)
    ms = [cb.Grid([0, 0, 0.3 * (k + 1)], [1, 1, 0.3 * (k + 1)], nm, 1) for k, nm in enumerate(mids) if nm]
    if not ms:
        sm = None
    elif len(ms) == 1 and mids[1] == 0:
        sm = ms[0]            # a single sketch, not wrapped in a list
    else:
        sm = ms
    bad = n1 != n2 or any(nm and nm != n1 for nm in mids)
    return judge(sx, f"LoftedShape(sketches with {n1}/{mids}/{n2} faces)", "C20:face-counts",
                 lambda: cb.LoftedShape(s1, s2, sm), bad, not bad)


def _grid():
    mesh = cb.Mesh()
    mesh.add(cb.Box([0, 0, 0], [1, 1, 1]))
    mesh.add(cb.Box([1, 0, 0], [2, 1, 1]))
    mesh.assemble()
    return HexGrid.from_mesh(mesh)


def run_clamp(sx, what):
    grid = _grid()
    off = sx.real("offset", -0.5, 0.5)
    p = sx.vec(1, 1, 1) + sx.vec(1, 0, 0) * off
    bad = sx.any([off >= sx.const(2 * TOL), off <= sx.const(-2 * TOL)])
    good = sx.all([off <= sx.const(TOL / 2), off >= sx.const(-TOL / 2)])
    if what == "clamp-position":
        clamp = cb.FreeClamp(p)
        return judge(sx, "add_clamp(clamp at offset from a vertex)", "C20:clamp-position", lambda: grid.add_clamp(clamp), bad, good)
    if what == "second-clamp":
        n = 1 + sx.choice("n_clamps", 3)

        def call():
            for _ in range(n):
                grid.add_clamp(cb.FreeClamp([1, 1, 1]))
        return judge(sx, f"{n} clamps on one vertex", "C20:second-clamp", call, n > 1, n == 1)
    if what == "link-leader":
        link = cb.TranslationLink(p, sx.vec(2, 1, 1))
    else:
        link = cb.TranslationLink(sx.vec(2, 1, 1), p)
    return judge(sx, f"add_link({what} at offset from a vertex)", f"C20:{what}", lambda: grid.add_link(link), bad, good)


def run_lifecycle(sx):
    k = sx.choice("history", 8)
    mesh = cb.Mesh()
    box = cb.Box([0, 0, 0], [1, 1, 1])
    for ax in range(3):
        box.chop(ax, count=2)
    mesh.add(box)
    hist = [["grade"], ["backport"], ["assemble", "grade"], ["assemble", "backport"],
            # a cleared mesh is not assembled either
            ["assemble", "clear", "grade"], ["assemble", "clear", "backport"], ["assemble", "grade", "clear", "assemble", "grade"],
            ["assemble", "backport", "clear", "backport"]][k]

    def call():
        for step in hist:
            getattr(mesh, step)()
    # grade/backport need an assembled mesh: the last assemble()/backport() must not be followed by a clear()
    state, bad = False, False
    for step in hist:
        if step in ("grade", "backport") and not state:
            bad = True
        if step in ("assemble", "backport"):
            state = True
        if step == "clear":
            state = False
    return judge(sx, f"Mesh: {' -> '.join(hist)}", "C20:lifecycle", call, bad, not bad)


def jobs(tier, seed):
    js = [{"name": "face-shape", "fn": "run_face_shape"}]
    for api in ("Face.add_edge", "Face.project_edge", "Operation.add_side_edge", "Operation.project_corner",
                "Operation.chop", "Block.chop"):
        js.append({"name": f"index:{api}", "fn": "run_corner_index", "params": {"api": api}})
    for api in ("Operation.project_edge", "Frame.add_beam", "Block.add_edge"):
        js.append({"name": f"pair:{api}", "fn": "run_corner_pair", "params": {"api": api}})
    for api in ("Project", "add_label", "project_edge"):
        js.append({"name": f"labels:{api}", "fn": "run_project_labels", "params": {"api": api}})
    js.append({"name": "length-ratio", "fn": "run_length_ratio"})
    for shape in ("Cylinder", "SemiCylinder", "Frustum"):
        js.append({"name": f"perpendicular:{shape}", "fn": "run_perpendicular", "params": {"shape": shape}})
    for what in ("perpendicular", "radii", "ExtrudedRing"):
        js.append({"name": f"annulus:{what}", "fn": "run_annulus", "params": {"what": what}})
    for shape in ("Cylinder", "Frustum", "ExtrudedRing"):
        for sf in (False, True):
            js.append({"name": f"chain:{shape}:start_face={sf}", "fn": "run_chain", "params": {"shape": shape, "start_face": sf}})
    js.append({"name": "contract", "fn": "run_contract"})
    js.append({"name": "face-counts", "fn": "run_face_counts"})
    for what in ("clamp-position", "second-clamp", "link-leader", "link-follower"):
        js.append({"name": what, "fn": "run_clamp", "params": {"what": what}})
    js.append({"name": "lifecycle", "fn": "run_lifecycle"})
    for j in js:
        j.setdefault("budget_s", 200 if tier == "quick" else 900)
    return js
