"""C15 - smoothing moves only free interior points, to their neighbours' average."""
import itertools

import numpy as np

import classy_blocks as cb
from classy_blocks.optimize.smoother import MeshSmoother, SketchSmoother

from . import g1

PROPERTY = "C15"
META = {
    "explanation": "SketchSmoother / MeshSmoother run on quad maps and hexahedral assemblies whose point positions are all "
                   "free symbolic reals (the code is affine in them) and whose set of user-fixed points is chosen by the "
                   "solver; the harness derives boundary points (points of edges/faces that belong to exactly one cell) "
                   "and edge-neighbours from the connectivity alone and recomputes the Laplacian sweep independently. z3 "
                   "shows: boundary and fixed points unchanged, each free interior point equals the average of its "
                   "edge-neighbours in the sweep order, an assignment where every free point already is that average is "
                   "a fix point of smooth(k), the regular lattice is the fix point of a regular boundary, and the "
                   "result is copied back identically to every face / vertex that shares a point.",
    "bounds": {"quad maps": "2x2, 3x3, 4x2 structured; L-shaped (re-entrant corner); 5-face disk map; 12-face four-core map "
               "(thorough)", "hex": "2x2x2 boxes; L-shaped 3x2 two layers (thorough)", "iterations": "1, 2 (quick), 3 (thorough)",
               "fixed points": "every subset of the interior points (fork), by index or by position"},
    "outside": ["convergence rate / 200 iterations (a numeric claim)", "maps with more than 12 faces"],
    "assumptions": ["positions are pairwise at least 1e-3 apart where points are fixed by position"],
    "must_reach": ["smoothed"],
}


def grid_quads(nx, ny, skip=()):
    """structured nx x ny faces; `skip` lists removed faces (i, j) -> point list and quads"""
    idx = {}
    quads = []
    for j in range(ny):
        for i in range(nx):
            if (i, j) in skip:
                continue
            q = []
            for (a, b) in ((i, j), (i + 1, j), (i + 1, j + 1), (i, j + 1)):
                if (a, b) not in idx:
                    idx[(a, b)] = len(idx)
                q.append(idx[(a, b)])
            quads.append(q)
    coords = {v: k for k, v in idx.items()}
    return [coords[i] for i in range(len(coords))], quads


def disk_map():
    """one-core disk: inner square 0-3, outer ring 4-7; 5 faces (valence-3 points on the core)"""
    pts = [(-1, -1), (1, -1), (1, 1), (-1, 1), (-3, -3), (3, -3), (3, 3), (-3, 3)]
    quads = [[0, 1, 2, 3], [4, 5, 1, 0], [5, 6, 2, 1], [6, 7, 3, 2], [7, 4, 0, 3]]
    return pts, quads


def star_map(n=5):
    """n quads around one interior point (valence n: more than a quad has sides when n = 5, 6)"""
    import math
    pts = [(0.0, 0.0, 0.0)]
    for i in range(n):
        a = 2 * math.pi * i / n
        pts.append((round(math.cos(a), 3), round(math.sin(a), 3), 0.0))               # spokes 1..n
    for i in range(n):
        a = 2 * math.pi * (i + 0.5) / n
        pts.append((round(1.6 * math.cos(a), 3), round(1.6 * math.sin(a), 3), 0.0))   # corners n+1..2n
    quads = [[0, 1 + i, 1 + n + i, 1 + (i + 1) % n] for i in range(n)]
    return pts, quads


MAPS = {
    "2x2": lambda: grid_quads(2, 2),
    "3x3": lambda: grid_quads(3, 3),
    "4x2": lambda: grid_quads(4, 2),
    "L": lambda: grid_quads(3, 3, skip=((2, 2), (1, 2), (2, 1))),
    "L-wide": lambda: grid_quads(3, 3, skip=((2, 2),)),
    "disk": disk_map,
    "star5": lambda: star_map(5),
    "star6": lambda: star_map(6),
}


def topology(cells, dim):
    """boundary points and edge-neighbours from connectivity only"""
    if dim == 2:
        cell_edges = lambda c: [(c[i], c[(i + 1) % 4]) for i in range(4)]
        cell_sides = cell_edges
    else:
        E = [(0, 1), (1, 2), (2, 3), (3, 0), (4, 5), (5, 6), (6, 7), (7, 4), (0, 4), (1, 5), (2, 6), (3, 7)]
        F = [(0, 1, 2, 3), (4, 5, 6, 7), (0, 1, 5, 4), (1, 2, 6, 5), (2, 3, 7, 6), (3, 0, 4, 7)]
        cell_edges = lambda c: [(c[a], c[b]) for a, b in E]
        cell_sides = lambda c: [tuple(c[k] for k in f) for f in F]
    count = {}
    for c in cells:
        for s in cell_sides(c):
            count[frozenset(s)] = count.get(frozenset(s), 0) + 1
    boundary = set()
    for s, n in count.items():
        if n == 1:
            boundary |= set(s)
    nb = {}
    for c in cells:
        for a, b in cell_edges(c):
            nb.setdefault(a, set()).add(b)
            nb.setdefault(b, set()).add(a)
    return boundary, nb


def _sym_positions(sx, base, dim):
    pts = []
    for i, p in enumerate(base):
        row = [sx.const(p[k]) + sx.real(f"p{i}_{k}", -0.3, 0.3) for k in range(dim)]
        if dim == 2:
            row.append(sx.const(0))
        pts.append(row)
    return sx.arr(pts)


def _reference(P, free, nb, iterations):
    P = [np.array(p, dtype=p.dtype) for p in P]
    for _ in range(iterations):
        for i in sorted(free):
            ns = sorted(nb[i])
            acc = P[ns[0]]
            for j in ns[1:]:
                acc = acc + P[j]
            P[i] = acc / len(ns)
    return P


def _close_rows(sx, A, B):
    return sx.all([sx.close(x, y, 1e-9) for a, b in zip(A, B) for x, y in zip(a, b)])


def run_sketch(sx, name, iterations, fix_mode="index"):
    base, quads = MAPS[name]()
    P0 = _sym_positions(sx, base, 2)
    boundary, nb = topology(quads, 2)
    interior = [i for i in range(len(base)) if i not in boundary]
    fixed = [i for i in interior if sx.flag(f"fixed{i}")]
    sketch = cb.MappedSketch(P0, quads)
    sm = SketchSmoother(sketch)
    if fix_mode == "index":
        sm.fix_indexes(fixed)
    elif fix_mode == "position":
        sm.fix_points([np.array(P0[i], dtype=P0.dtype) for i in fixed])
    else:
        # the user fixes points in several calls, by position and by index, in a solver-chosen split and order:
        # everything fixed by any call stays fixed
        first = [i for i in fixed if sx.flag(f"in_first_call{i}")]
        rest = [i for i in fixed if i not in first]
        calls = [("points", first), ("indexes", rest[:1]), ("indexes", rest[1:])]
        if sx.flag("indexes_first"):
            calls = calls[1:] + calls[:1]
        for how, which in calls:
            if how == "points":
                sm.fix_points([np.array(P0[i], dtype=P0.dtype) for i in which])
            else:
                sm.fix_indexes(which)
    sm.smooth(iterations)
    sx.reach("smoothed")
    got = sketch.positions
    free = [i for i in interior if i not in fixed]
    tag = f"{name}, {iterations} it., fixed {fixed} ({fix_mode})"
    keep = [i for i in range(len(base)) if i not in free]
    sx.prove(_close_rows(sx, [got[i] for i in keep], [P0[i] for i in keep]),
             f"{tag}: boundary points and fixed points are exactly where they were", f"C15:sketch:unmoved:{name}",
             info={"boundary": sorted(boundary), "fixed": fixed})
    want = _reference(P0, free, nb, iterations)
    sx.prove(_close_rows(sx, [got[i] for i in free], [want[i] for i in free]),
             f"{tag}: every free interior point is the average of the points it shares a face edge with (sweep in index order)",
             f"C15:sketch:average:{name}", info={"free": free})
    # copy-back: every face that shares a point has the same new position
    conds = []
    for q, face in zip(quads, sketch.faces):
        for k in range(4):
            conds += [sx.close(x, y, 1e-9) for x, y in zip(face.points[k].position, got[q[k]])]
    sx.prove(sx.all(conds), f"{tag}: all faces sharing a point hold the same smoothed position", f"C15:sketch:copy-back:{name}")
    return "smoothed"


LIBRARY_SKETCHES = {
    "SplineDisk": lambda: cb.SplineDisk([0.5, 0, 0], [0.5, 1, 0], [0.5, 0, 2], 0.4, 0.8),
    "HalfSplineDisk": lambda: cb.HalfSplineDisk([0.5, 0, 0], [0.5, 1, 0], [0.5, 0, 2], 0.4, 0.8),
    "FourCoreDisk": lambda: cb.FourCoreDisk([1, -2, 0.5], [2.5, -2, 0.5], [0, 0, 1]),
    "OneCoreDisk": lambda: cb.OneCoreDisk([1, -2, 0.5], [2.5, -2, 0.5], [0, 0, 1]),
    "Oval": lambda: cb.Oval([0, 0, 0], [0, 2, 0], [0, 0, 1], 0.7),
}


def run_library_sketch(sx, cls_name, iterations=1):
    """the mapped sketches of the library (their `grid` may list the faces in another order than `faces`/`indexes`):
    concrete geometry, judged against the same reference as the symbolic maps"""
    sketch = LIBRARY_SKETCHES[cls_name]()
    quads = [[int(i) for i in q] for q in sketch.indexes]
    P0 = np.array(sketch.positions, dtype=float)
    boundary, nb = topology(quads, 2)
    free = [i for i in range(len(P0)) if i not in boundary]
    SketchSmoother(sketch).smooth(iterations)
    sx.reach("smoothed")
    got = np.array(sketch.positions, dtype=float)
    tag = f"{cls_name}, {iterations} it."
    keep = sorted(boundary)
    sx.prove(bool(np.allclose(got[keep], P0[keep], atol=1e-9, rtol=0)), f"{tag}: boundary points are exactly where they were",
             f"C15:sketch:unmoved:{cls_name}")
    want = _reference(P0, free, nb, iterations)
    sx.prove(all(np.allclose(got[i], want[i], atol=1e-9, rtol=0) for i in free),
             f"{tag}: every interior point is the average of the points it shares a face edge with (sweep in index order)",
             f"C15:sketch:average:{cls_name}", info={"free": free})
    ok = all(np.allclose(face.points[k].position, got[q[k]], atol=1e-9, rtol=0)
             for q, face in zip(quads, sketch.faces) for k in range(4))
    sx.prove(ok, f"{tag}: all faces sharing a point hold the same smoothed position", f"C15:sketch:copy-back:{cls_name}")
    return "smoothed"


def run_fixpoint(sx, name):
    """if every free interior point already equals its neighbours' average, smooth(3) changes nothing"""
    base, quads = MAPS[name]()
    P0 = _sym_positions(sx, base, 2)
    boundary, nb = topology(quads, 2)
    interior = [i for i in range(len(base)) if i not in boundary]
    for i in interior:
        ns = sorted(nb[i])
        for k in range(2):
            acc = P0[ns[0]][k]
            for j in ns[1:]:
                acc = acc + P0[j][k]
            sx.assume(P0[i][k] * len(ns) == acc, None)
    sketch = cb.MappedSketch(P0, quads)
    sm = SketchSmoother(sketch)
    sm.smooth(3)
    sx.reach("smoothed")
    sx.prove(_close_rows(sx, sketch.positions, P0), f"{name}: an assignment where every free point is its neighbours' average is a "
             "fix point of smooth()", f"C15:sketch:fix-point:{name}")
    return "smoothed"


def run_regular(sx, nx, ny):
    """regular boundary => the regular lattice is the (unique) fix point"""
    base, quads = grid_quads(nx, ny)
    a, b = sx.real("a", 0.2, 3), sx.real("b", 0.2, 3)
    ox, oy = sx.real("ox", -5, 5), sx.real("oy", -5, 5)
    lattice = sx.arr([[ox + a * i, oy + b * j, 0 * a] for (i, j) in base])
    boundary, nb = topology(quads, 2)
    interior = [i for i in range(len(base)) if i not in boundary]
    sketch = cb.MappedSketch(lattice, quads)
    SketchSmoother(sketch).smooth(2)
    sx.reach("smoothed")
    sx.prove(_close_rows(sx, sketch.positions, lattice), f"{nx}x{ny}: the regular lattice is a fix point of smoothing",
             f"C15:sketch:regular-lattice:{nx}x{ny}")
    # uniqueness (pure linear algebra, decided by the solver): any fix point with that boundary is the lattice
    if sx.sym:
        free_pts = {i: [sx.real(f"u{i}_{k}") for k in range(2)] for i in interior}

        def pos(i, k):
            return free_pts[i][k] if i in free_pts else lattice[i][k]
        for i in interior:
            ns = sorted(nb[i])
            for k in range(2):
                acc = pos(ns[0], k)
                for j in ns[1:]:
                    acc = acc + pos(j, k)
                sx.assume(pos(i, k) * len(ns) == acc, None)
        sx.prove(sx.all([sx.close(free_pts[i][k], lattice[i][k], 1e-9) for i in interior for k in range(2)]),
                 f"{nx}x{ny}: the fix point for a regular boundary is unique (the regular lattice)",
                 f"C15:sketch:regular-unique:{nx}x{ny}")
    return "smoothed"


HEX = {
    "2x2x2": [(i, j, k) for k in range(2) for j in range(2) for i in range(2)],
    "L3x2x2": [(i, j, k) for k in range(2) for j in range(2) for i in range(3) if not (i == 2 and j == 1)],
}


def run_mesh(sx, name, iterations):
    cells = HEX[name]
    # symbolic positions per lattice point
    lat = {}
    def P(pt):
        if pt not in lat:
            lat[pt] = [sx.const(pt[k]) + sx.real(f"q{len(lat)}_{k}", -0.2, 0.2) for k in range(3)]
        return lat[pt]
    mesh = cb.Mesh()
    for c in cells:
        pts = sx.arr([P(tuple(c[k] + g1.CORNERS[n][k] for k in range(3))) for n in range(8)])
        mesh.add(cb.Loft(cb.Face(pts[:4]), cb.Face(pts[4:])))
    mesh.assemble()
    hexes = [[v.index for v in b.vertices] for b in mesh.blocks]
    P0 = [np.array(v.position, dtype=v.position.dtype) for v in mesh.vertices]
    boundary, nb = topology(hexes, 3)
    interior = [i for i in range(len(P0)) if i not in boundary]
    fixed = [i for i in interior if sx.flag(f"fixed{i}")]
    sm = MeshSmoother(mesh)
    sm.fix_indexes(fixed)
    sm.smooth(iterations)
    sx.reach("smoothed")
    got = [v.position for v in mesh.vertices]
    free = [i for i in interior if i not in fixed]
    keep = [i for i in range(len(P0)) if i not in free]
    tag = f"{name}, {iterations} it., fixed {fixed}"
    sx.prove(_close_rows(sx, [got[i] for i in keep], [P0[i] for i in keep]),
             f"{tag}: boundary and fixed vertices are exactly where they were", f"C15:mesh:unmoved:{name}",
             info={"interior": interior})
    want = _reference(P0, free, nb, iterations)
    sx.prove(_close_rows(sx, [got[i] for i in free], [want[i] for i in free]),
             f"{tag}: every free interior vertex is the average of the vertices it shares a block edge with",
             f"C15:mesh:average:{name}")
    sx.prove(len(interior) >= 1, f"{name}: the model has interior vertices", f"C15:mesh:has-interior:{name}")
    return "smoothed"


def jobs(tier, seed):
    js = []

    def add(fn, jobname, **p):
        js.append({"name": jobname, "fn": fn, "params": p, "budget_s": 240 if tier == "quick" else 1500})

    its = (1, 2) if tier == "quick" else (1, 2, 3)
    for name in MAPS:
        for it in its:
            add("run_sketch", f"sketch|{name}|it={it}", name=name, iterations=it)
        add("run_sketch", f"sketch|{name}|fix-by-position", name=name, iterations=1, fix_mode="position")
        add("run_sketch", f"sketch|{name}|fixed in several calls", name=name, iterations=1, fix_mode="several-calls")
        add("run_fixpoint", f"fix-point|{name}", name=name)
    for cls_name in LIBRARY_SKETCHES:
        if hasattr(cb, cls_name):
            js.append({"name": f"library sketch|{cls_name}|ground twin only", "fn": "run_library_sketch", "symbolic": False,
                       "params": {"cls_name": cls_name, "iterations": 2}, "budget_s": 60})
    for (nx, ny) in ((2, 2), (3, 3), (4, 2)):
        add("run_regular", f"regular|{nx}x{ny}", nx=nx, ny=ny)
    add("run_mesh", "mesh|2x2x2|it=1", name="2x2x2", iterations=1)
    add("run_mesh", "mesh|L3x2x2|it=2", name="L3x2x2", iterations=2)
    return js
