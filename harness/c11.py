"""C11 - predefined shapes give right-handed, conformal, fully choppable blockings."""
import math
from fractions import Fraction

import numpy as np

import classy_blocks as cb
from classy_blocks.base.exceptions import InconsistentGradingsError, UndefinedGradingsError

from . import g1

PROPERTY = "C11"
TOL = 1e-7
META = {
    "choice_sets": True,
    "explanation": "Every predefined shape / sketch-based shape / stack / joint is constructed with all its point and vector "
                   "arguments of the form k*Q*x0 + t (k, t symbolic: scale in [0.01, 1000] and translation; Q a pinned rational "
                   "rotation; x0 a canonical argument) and taken through the real Mesh.assemble; its count-only chop calls "
                   "are applied and the real Mesh.grade() runs with solver-chosen set-iteration schedules. z3 shows for "
                   "all k, t: every corner Jacobian of every block is positive, no two distinct vertices coincide (all "
                   "merging decisions are placement independent), the blocking is face-connected with the expected vertex "
                   "count, outer arc points lie on the intended circle, grading succeeds, and chained / expanded / "
                   "contracted / filled shapes share exactly their interface vertices with the source.",
    "bounds": {"placement": "k in [0.01, 1000], t in [-1000, 1000]^3 symbolic; rotation identity or the pinned rational rotation "
               "(axis (1,2,2), cos 3/5, sin 4/5)", "intrinsic parameters": "one canonical set per shape class (radii, lengths, "
               "default segment counts; joints with 2, 3 branches)", "chains": "2 shapes"},
    "outside": ["intrinsic parameters other than the canonical set (segment counts change the program, radius ratios enter "
                "through irrational angles)", "rotations outside the pinned set", "non-uniform scaling",
                "NJoint with 4 or more branches in symbolic placement (concrete grade job only)"],
    "assumptions": ["count-only chops"],
    "must_reach": ["assembled", "graded"],
}

Q_ROT = None


def _rotation():
    """pinned rational rotation matrix: axis (1,2,2)/3, cos 3/5, sin 4/5"""
    n = np.array([Fraction(1, 3), Fraction(2, 3), Fraction(2, 3)], dtype=object)
    c, s = Fraction(3, 5), Fraction(4, 5)
    K = np.array([[0, -n[2], n[1]], [n[2], 0, -n[0]], [-n[1], n[0], 0]], dtype=object)
    eye = np.array([[Fraction(int(i == j)) for j in range(3)] for i in range(3)], dtype=object)
    return eye + K * s + K.dot(K) * (1 - c)


GROUND = [(Fraction(17, 10), (Fraction(3, 10), Fraction(-6, 5), Fraction(21, 10))), (Fraction(1, 20), (-40, 7, 13))]


class Placement:
    def __init__(self, sx, rotated, ground=None):
        self.sx = sx
        if ground is None:
            self.k = sx.real("k", Fraction(1, 100), 1000)
            self.t = sx.vec(sx.real("tx", -1000, 1000), sx.real("ty", -1000, 1000), sx.real("tz", -1000, 1000))
        else:
            # a ground instance of the placement: every query is decided by evaluation. It complements the symbolic
            # placement, whose run can drown in undecided square-root comparisons exactly when the code is wrong.
            k, t = GROUND[ground]
            self.k = sx.const(k)
            self.t = sx.vec(*t)
        self.Q = _rotation() if rotated else None

    def D(self, x, y, z):
        v = [Fraction(x).limit_denominator(10 ** 9), Fraction(y).limit_denominator(10 ** 9), Fraction(z).limit_denominator(10 ** 9)]
        if self.Q is not None:
            v = [sum(self.Q[i][j] * v[j] for j in range(3)) for i in range(3)]
        return self.sx.vec(*v) if self.sx.sym else np.array([float(a) for a in v])

    def P(self, x, y, z):
        return self.t + self.D(x, y, z) * self.k

    def L(self, a):
        return self.k * a

    def unplace(self, p):
        """inverse placement (for oracles stated in canonical coordinates)"""
        d = (np.asarray(p) - self.t) / self.k
        if self.Q is None:
            return d
        return np.array([sum(self.Q[j][i] * d[j] for j in range(3)) for i in range(3)], dtype=d.dtype)


# ---- shape table ----------------------------------------------------------------------------------
def _chop_round(s):
    s.chop_axial(count=3)
    s.chop_radial(count=2)
    s.chop_tangential(count=4)


def _chop_axes(s):
    for ax in range(3):
        s.chop(ax, count=2 + ax)


def build(name, pl):
    """-> (list of entities to add, info)"""
    P, D, L = pl.P, pl.D, pl.L
    if name == "Box":
        # a box is defined axis-aligned only: use Loft from rotated box corners instead when rotated
        pts = [P(*c) for c in [(0, 0, 0), (2, 0, 0), (2, 1, 0), (0, 1, 0), (0, 0, 1.5), (2, 0, 1.5), (2, 1, 1.5), (0, 1, 1.5)]]
        op = cb.Loft(cb.Face(pts[:4]), cb.Face(pts[4:]))
        for ax in range(3):
            op.chop(ax, count=2)
        return [op], {"vertices": 8}
    if name == "Extrude":
        op = cb.Extrude(cb.Face([P(0, 0, 0), P(1, 0, 0), P(1.2, 1, 0), P(0, 1, 0)]), D(0.2, 0.1, 1.5) * pl.k)
        for ax in range(3):
            op.chop(ax, count=2)
        return [op], {"vertices": 8}
    if name == "Revolve":
        op = cb.Revolve(cb.Face([P(1, 0, 0), P(1, 0, 1), P(2, 0, 1), P(2, 0, 0)]), math.pi / 3, D(0, 0, 1), P(0, 0, 0))   # face normal along the sweep
        for ax in range(3):
            op.chop(ax, count=2)
        return [op], {"vertices": 8, "axis": (D(0, 0, 1), P(0, 0, 0)), "rev_axis": ((0, 0, 0), (0, 0, 1)), "rev_arcs": 4}
    if name == "Cylinder":
        s = cb.Cylinder(P(0, 0, 0), P(0, 0, 2), P(1, 0, 0))
        _chop_round(s)
        return [s], {"vertices": 34, "rim": 1.0}
    if name == "SemiCylinder":
        s = cb.SemiCylinder(P(0, 0, 0), P(0, 0, 2), P(1, 0, 0))
        _chop_round(s)
        return [s], {"vertices": 22, "rim": 1.0}
    if name == "Frustum":
        s = cb.Frustum(P(0, 0, 0), P(0, 0, 2), P(1, 0, 0), L(0.5))
        _chop_round(s)
        return [s], {"vertices": 34}
    if name == "ExtrudedRing":
        s = cb.ExtrudedRing(P(0, 0, 0), P(0, 0, 2), P(1, 0, 0), L(0.4))
        _chop_round(s)
        return [s], {"vertices": 32, "rim": 1.0}
    if name == "Elbow":
        s = cb.Elbow(P(0, 0, 0), P(0.5, 0, 0), D(0, 0, 1), math.pi / 2, P(2, 0, 0), D(0, 1, 0), L(0.5))
        _chop_round(s)
        return [s], {"vertices": 34}
    if name == "RevolvedRing":
        face = cb.Face([P(0, 1, 0), P(1, 1, 0), P(1, 1.5, 0), P(0, 1.4, 0)])
        s = cb.RevolvedRing(P(0, 0, 0), P(1, 0, 0), face, 4)
        s.chop_axial(count=3)
        s.chop_radial(count=2)
        s.chop_tangential(count=4)
        return [s], {"vertices": 16, "rev_axis": ((0, 0, 0), (1, 0, 0)), "rev_arcs": 16}
    if name == "Hemisphere":
        s = cb.Hemisphere(P(0, 0, 0), P(1, 0, 0), D(0, 0, 1))
        s.chop_axial(count=3)
        s.chop_radial(count=2)
        s.chop_tangential(count=4)
        return [s], {"vertices": None}
    if name == "ExtrudedStack":
        # a grid lies in the x-y plane by construction: build it canonically, then place it with the library's own transforms
        g = cb.Grid([0, 0, 0], [2, 3, 0], 2, 3)
        st = cb.ExtrudedStack(g, [0, 0, 1.5], 2)
        st = _place_entity(st, pl)
        for op in st.shapes[0].operations:      # a Grid has no chop table: chop its operations directly
            for ax in (0, 1):
                op.chop(ax, count=2)
        st.chop(count=3)
        return [st], {"vertices": 3 * 4 * 3}
    if name == "RevolvedStack":
        g = cb.Grid([1, 0, 0], [2, 1, 0], 1, 2)
        st = cb.RevolvedStack(g, math.pi / 3, [0, -1, 0], [0, 0, 0], 2)
        st = _place_entity(st, pl)
        for op in st.shapes[0].operations:
            for ax in (0, 1):
                op.chop(ax, count=2)
        st.chop(count=3)
        return [st], {"vertices": 2 * 3 * 3, "rev_axis": ((0, 0, 0), (0, 1, 0)), "rev_arcs": 12, "rev_kinds": ("arc",)}
    if name == "Wedge":
        # (a wedge is revolved about the global x axis by construction: built canonically, placed with the library's transforms)
        # (angle 0.8 rad: with thin wedges the absolute collinearity tolerance of ArcEdge.is_valid turns the arcs into lines
        #  at the small end of the scale range - a documented tolerance effect, not part of the claim)
        op = cb.Wedge(cb.Face([[0, 1, 0], [2, 1, 0], [2, 2.5, 0], [0, 2, 0]]), 0.8)
        op = _place_entity(op, pl)
        op.chop(0, count=2)
        op.chop(1, count=2)
        return [op], {"vertices": 8, "rev_axis": ((0, 0, 0), (1, 0, 0)), "rev_arcs": 4}
    if name == "Shell":
        faces = [cb.Face([P(0, 0, 0), P(1, 0, 0), P(1, 1, 0), P(0, 1, 0)]), cb.Face([P(1, 0, 0), P(2, 0, 0.5), P(2, 1, 0.5), P(1, 1, 0)])]
        s = cb.Shell(faces, L(0.3))
        s.chop(count=2)
        for op in s.operations:
            op.chop(0, count=2)
        s.operations[0].chop(1, count=2)
        return [s], {"vertices": 12}
    if name in ("OneCoreDisk", "FourCoreDisk", "HalfDisk", "WrappedDisk", "Oval"):
        if name == "WrappedDisk":
            sk = cb.WrappedDisk(P(0, 0, 0), P(2, 2, 0), L(1.0), D(0, 0, 1))
        elif name == "Oval":
            sk = cb.Oval(P(0, 0, 0), P(2, 0, 0), D(0, 0, 1), L(1.0))
        else:
            sk = getattr(cb, name)(P(0, 0, 0), P(1, 0, 0), D(0, 0, 1))
        s = cb.ExtrudedShape(sk, D(0, 0, 1) * L(1.5))
        _chop_axes(s)
        return [s], {"vertices": {"OneCoreDisk": 16, "FourCoreDisk": 34, "HalfDisk": 22, "WrappedDisk": 24, "Oval": 44}[name]}
    if name in SPLINE:
        cls = getattr(cb, name)
        args = [P(0, 0, 0), P(0, 1, 0), P(0, 0, 2), L(0.3), L(0.5)]
        if "Ring" in name:
            args += [L(0.1), L(0.3)]        # unequal shell widths
        sk = cls(*args)
        s = cb.ExtrudedShape(sk, D(1, 0, 0) * L(1.5))
        _chop_axes(s)
        return [s], {"vertices": SPLINE[name]}
    if name in ("LJoint", "TJoint", "NJoint3", "NJoint4"):
        if name == "LJoint":
            j = cb.LJoint(P(0, 0, 0), P(0, 0, 3), P(1, 0, 0))
        elif name == "TJoint":
            j = cb.TJoint(P(0, 0, 0), P(0, 0, 3), P(1, 0, 0))
        elif name == "NJoint4":
            j = cb.NJoint(P(0, 0, 0), P(0, 0, 3), P(1, 0, 0))          # default: four branches
        else:
            j = cb.NJoint(P(0, 0, 0), P(0, 0, 3), P(1, 0, 0), 3)
        j.chop_axial(count=3)
        j.chop_radial(count=2)
        j.chop_tangential(count=4)
        return [j], {"vertices": None}
    raise KeyError(name)


def _place_entity(e, pl):
    """place a canonically built entity with the library's own transforms (scale, rotate, translate)"""
    e.scale(pl.k, [0, 0, 0])
    if pl.Q is not None:
        e.rotate(pl.sx.angle("theta_q", 1, Fraction(3, 5), Fraction(4, 5)), [1, 2, 2], [0, 0, 0])
    e.translate(pl.t)
    return e


def build_chain(name, pl):
    P, D, L = pl.P, pl.D, pl.L
    if name == "Cylinder.chain":
        a = cb.Cylinder(P(0, 0, 0), P(0, 0, 2), P(1, 0, 0))
        b = cb.Cylinder.chain(a, L(1.5))
        shared = 17
    elif name == "Cylinder.chain(start)":
        a = cb.Cylinder(P(0, 0, 0), P(0, 0, 2), P(1, 0, 0))
        b = cb.Cylinder.chain(a, L(1.5), start_face=True)
        shared = 17
    elif name == "Frustum.chain":
        a = cb.Cylinder(P(0, 0, 0), P(0, 0, 2), P(1, 0, 0))
        b = cb.Frustum.chain(a, L(1.5), L(0.6))
        shared = 17
    elif name == "Elbow.chain":
        a = cb.Cylinder(P(0, 0, 0), P(0, 0, 2), P(1, 0, 0))
        b = cb.Elbow.chain(a, math.pi / 2, P(3, 0, 2), D(0, 1, 0), L(1.0))
        shared = 17
    elif name == "ExtrudedRing.expand":
        a = cb.Cylinder(P(0, 0, 0), P(0, 0, 2), P(1, 0, 0))
        b = cb.ExtrudedRing.expand(a, L(0.5))
        shared = 16
    elif name == "ExtrudedRing.contract":
        a = cb.ExtrudedRing(P(0, 0, 0), P(0, 0, 2), P(1, 0, 0), L(0.6))
        b = cb.ExtrudedRing.contract(a, L(0.3))
        shared = 16
    elif name == "Cylinder.fill":
        a = cb.ExtrudedRing(P(0, 0, 0), P(0, 0, 2), P(1, 0, 0), L(0.6))
        b = cb.Cylinder.fill(a)
        shared = 16
    elif name == "Cylinder.fill(16 segments)":
        # a ring with a non-default number of segments: fill() either refuses it or shares every inner vertex with it
        a = cb.ExtrudedRing(P(0, 0, 0), P(0, 0, 2), P(1, 0, 0), L(0.6), n_segments=16)
        try:
            b = cb.Cylinder.fill(a)
        except Exception as e:      # noqa
            if type(e).__name__ != "CylinderCreationError":
                raise
            b = None
        shared = 32
    elif name == "ExtrudedRing.chain":
        a = cb.ExtrudedRing(P(0, 0, 0), P(0, 0, 2), P(1, 0, 0), L(0.6))
        b = cb.ExtrudedRing.chain(a, L(1.0))
        shared = 16
    elif name == "Hemisphere.chain":
        a = cb.Cylinder(P(0, 0, 0), P(0, 0, 2), P(1, 0, 0))
        b = cb.Hemisphere.chain(a)
        shared = 17
    else:
        raise KeyError(name)
    return a, b, shared


# ---- obligations ------------------------------------------------------------------------------------
def _cross(a, b):
    return np.array([a[1] * b[2] - a[2] * b[1], a[2] * b[0] - a[0] * b[2], a[0] * b[1] - a[1] * b[0]], dtype=a.dtype)


def _dot(a, b):
    return a[0] * b[0] + a[1] * b[1] + a[2] * b[2]


# the three edge neighbours of each corner, ordered so that (a-p, b-p, c-p) is right-handed for a right-handed hexahedron
NEIGH = {0: (1, 3, 4), 1: (2, 0, 5), 2: (3, 1, 6), 3: (0, 2, 7), 4: (7, 5, 0), 5: (4, 6, 1), 6: (5, 7, 2), 7: (6, 4, 3)}


def check_blocking(sx, mesh, pl, info, tag, allow_collapsed=False):
    k = pl.k
    conds = []
    for b in mesh.blocks:
        p = [v.position for v in b.vertices]
        for c, (x, y, z) in NEIGH.items():
            jac = _dot(_cross(p[x] - p[c], p[y] - p[c]), p[z] - p[c]) / (k * k * k)
            conds.append(jac >= sx.const(0) if allow_collapsed else jac > sx.const(1e-9))
    sx.prove(sx.all(conds), f"{tag}: every block is right-handed with positive corner Jacobians", f"C11:jacobian:{tag}")
    # no unmerged duplicates: distinct vertices are farther apart than 1e-4 (canonical units)
    conds = []
    vs = mesh.vertices
    for i in range(len(vs)):
        for j in range(i + 1, len(vs)):
            d = (vs[i].position - vs[j].position) / k
            conds.append(_dot(d, d) >= sx.const(1e-8))
    sx.prove(sx.all(conds), f"{tag}: no two distinct vertices coincide (adjacent blocks share their vertices)",
             f"C11:duplicates:{tag}")
    if info.get("vertices") is not None:
        sx.prove(len(vs) == info["vertices"], f"{tag}: expected vertex count {info['vertices']}", f"C11:vertex-count:{tag}",
                 info={"got": len(vs)})
    # face-connected
    faces = {}
    for bi, b in enumerate(mesh.blocks):
        idx = [v.index for v in b.vertices]
        for side, (ax, end) in g1_sides().items():
            key = frozenset(idx[c] for c in range(8) if g1.CORNERS[c][ax] == end)
            faces.setdefault(key, []).append(bi)
    adj = {i: set() for i in range(len(mesh.blocks))}
    for key, bs in faces.items():
        if len(key) == 4 and len(bs) == 2:
            adj[bs[0]].add(bs[1])
            adj[bs[1]].add(bs[0])
    seen, todo = {0}, [0]
    while todo:
        x = todo.pop()
        for y in adj[x]:
            if y not in seen:
                seen.add(y)
                todo.append(y)
    sx.prove(len(seen) == len(mesh.blocks), f"{tag}: the blocking is face-connected", f"C11:connected:{tag}",
             info={"reached": len(seen), "blocks": len(mesh.blocks)})
    # outer arcs on the intended circle
    if info.get("rim") is not None:
        r2 = info["rim"] ** 2
        conds = []
        for e in mesh.edge_list.edges:
            if e.kind not in ("arc", "origin", "angle"):
                continue
            a, b = pl.unplace(e.vertex_1.position), pl.unplace(e.vertex_2.position)
            on_rim = lambda q: sx.close(q[0] * q[0] + q[1] * q[1], r2, 1e-7)
            if bool(on_rim(a)) is True and bool(on_rim(b)) is True:
                m = pl.unplace(e.third_point.position)
                conds.append(sx.all([on_rim(m), sx.close(m[2], a[2], 1e-7)]))
        sx.prove(sx.all(conds) and len(conds) > 0, f"{tag}: the outer arcs lie on the intended circle", f"C11:outer-arcs:{tag}",
                 info={"arcs": len(conds)})
    # arcs of revolution: ends and third point at the same distance from, and the same position along, the axis
    if info.get("rev_axis") is not None:
        p0, d = [np.array([sx.const(c) for c in v], dtype=object) for v in info["rev_axis"]]
        dd = _dot(d, d)

        def cyl(q):
            w = q - p0
            ax = _dot(w, d)
            return ax, _dot(w, w) * dd - ax * ax        # (axial * |d|^2 , radial^2 * |d|^2)
        conds = []
        for e in mesh.edge_list.edges:
            if e.kind not in info.get("rev_kinds", ("angle", "arc")):
                continue
            a, b, m = (cyl(pl.unplace(q)) for q in (e.vertex_1.position, e.vertex_2.position, e.third_point.position))
            ends = sx.all([sx.close(a[0], b[0], 1e-7), sx.close(a[1], b[1], 1e-7)])
            mid = sx.all([sx.close(m[0], a[0], 1e-7), sx.close(m[1], a[1], 1e-7)])
            # an angle edge is an arc of revolution by definition; a three-point arc is one if its ends are
            conds.append(sx.all([ends, mid]) if e.kind == "angle" else sx.implies(ends, mid))
        sx.prove(sx.all(conds) and len(conds) >= info.get("rev_arcs", 1), f"{tag}: every arc of revolution lies on its circle "
                 "about the axis of revolution", f"C11:revolution-arcs:{tag}", info={"arcs": len(conds)})


def g1_sides():
    return {"left": (0, 0), "right": (0, 1), "front": (1, 0), "back": (1, 1), "bottom": (2, 0), "top": (2, 1)}


class ConcretePlacement(Placement):
    """k = 1, t = 0, no rotation (grading with count-only chops does not depend on the placement; the placement-dependent
    part - which vertices are shared - is what run_shape proves placement independent)"""

    def __init__(self, sx):
        self.sx = sx
        self.k = sx.const(1)
        self.t = sx.vec(0, 0, 0)
        self.Q = None


def run_grade(sx, name):
    """the shape's own chop calls are sufficient, on every set-iteration schedule"""
    pl = ConcretePlacement(sx)
    ents, info = build(name, pl)
    mesh = cb.Mesh()
    for e in ents:
        mesh.add(e)
    mesh.assemble()
    sx.reach("assembled")
    try:
        mesh.grade()
        ok, err = True, None
    except (UndefinedGradingsError, InconsistentGradingsError) as e:
        ok, err = False, type(e).__name__
    sx.reach("graded")
    sx.prove(ok, f"{name}: the shape's own chop calls are sufficient for writing (on this schedule)", f"C11:choppable:{name}",
             info={"error": err})
    return "graded" if ok else err


def run_shape(sx, name, rotated, grade=False, ground=None, placed=False):
    pl = Placement(sx, rotated, ground)
    if placed:
        # built at the canonical placement and brought to k*Q*x + t by the library's own scale/rotate/translate:
        # "any valid placement" also means a shape that was moved after it was created
        ents, info = build(name, ConcretePlacement(sx))
        ents = [_place_entity(e, pl) for e in ents]
    else:
        ents, info = build(name, pl)
    mesh = cb.Mesh()
    for e in ents:
        mesh.add(e)
    mesh.assemble()
    sx.reach("assembled")
    tag = f"{name}{'@rot' if rotated else ''}"
    check_blocking(sx, mesh, pl, info, tag, allow_collapsed=name in ())
    if grade:
        try:
            mesh.grade()
            ok, err = True, None
        except (UndefinedGradingsError, InconsistentGradingsError) as e:
            ok, err = False, type(e).__name__
        sx.reach("graded")
        sx.prove(ok, f"{tag}: the shape's own chop calls are sufficient for writing", f"C11:choppable:{name}", info={"error": err})
    return "shape"


def run_chain(sx, name, rotated):
    pl = Placement(sx, rotated)
    a, b, shared = build_chain(name, pl)
    if b is None:
        sx.reach("assembled")
        sx.note("refused", name)
        return "refused"
    m1, m2, m12 = cb.Mesh(), cb.Mesh(), cb.Mesh()
    m1.add(a)
    m2.add(b)
    m12.add(a)
    m12.add(b)
    for m in (m1, m2, m12):
        m.assemble()
    sx.reach("assembled")
    tag = f"{name}{'@rot' if rotated else ''}"
    check_blocking(sx, m12, pl, {}, tag)
    n1, n2, n12 = len(m1.vertices), len(m2.vertices), len(m12.vertices)
    sx.prove(n1 + n2 - n12 == shared, f"{tag}: the new shape shares exactly the {shared} interface vertices with its source",
             f"C11:interface:{name}", info={"source": n1, "new": n2, "together": n12})
    return "chain"


SPLINE = {"QuarterSplineRing": 12, "HalfSplineRing": 20, "SplineRing": 32, "QuarterSplineDisk": None, "HalfSplineDisk": None,
          "SplineDisk": None}
SHAPES = ["Box", "Extrude", "Revolve", "Cylinder", "SemiCylinder", "Frustum", "ExtrudedRing", "Elbow", "RevolvedRing",
          "Hemisphere", "ExtrudedStack", "RevolvedStack", "Wedge", "Shell", "OneCoreDisk", "FourCoreDisk", "HalfDisk", "WrappedDisk", "Oval", "LJoint", "TJoint", "NJoint3", "NJoint4", "QuarterSplineRing", "HalfSplineRing", "SplineRing", "QuarterSplineDisk", "HalfSplineDisk", "SplineDisk"]
CHAINS = ["Cylinder.chain", "Cylinder.chain(start)", "Frustum.chain", "Elbow.chain", "ExtrudedRing.expand", "ExtrudedRing.contract",
          "Cylinder.fill", "ExtrudedRing.chain", "Hemisphere.chain"]


def jobs(tier, seed):
    js = []
    for name in SHAPES:
        for rot in (False, True):
            if rot and tier == "quick" and name not in ("Cylinder", "Frustum", "ExtrudedRing", "Elbow", "Revolve", "FourCoreDisk"):
                continue
            js.append({"name": f"{name}|rotated={rot}", "fn": "run_shape", "params": {"name": name, "rotated": rot}})
        if name in ("Cylinder", "Hemisphere", "RevolvedRing", "Elbow", "FourCoreDisk", "LJoint", "Revolve", "HalfSplineRing") or \
                (tier == "thorough" and name not in ("ExtrudedStack", "RevolvedStack", "Wedge")):
            js.append({"name": f"{name}|moved after construction", "fn": "run_shape",
                       "params": {"name": name, "rotated": True, "placed": True}})
        for g in range(len(GROUND)):
            js.append({"name": f"{name}|ground placement {g}", "fn": "run_shape",
                       "params": {"name": name, "rotated": bool(g % 2 == 0), "ground": g}})
        js.append({"name": f"{name}|grade, all schedules", "fn": "run_grade", "params": {"name": name},
                   "max_paths": 40 if tier == "quick" else 3000})
    js.append({"name": "Cylinder.fill(16 segments)|ground twin only", "fn": "run_chain", "symbolic": False,
               "params": {"name": "Cylinder.fill(16 segments)", "rotated": False}})
    for name in CHAINS:
        js.append({"name": f"{name}|rotated=False", "fn": "run_chain", "params": {"name": name, "rotated": False}})
        if tier == "thorough":
            js.append({"name": f"{name}|rotated=True", "fn": "run_chain", "params": {"name": name, "rotated": True}})
    for j in js:
        j["budget_s"] = 280 if tier == "quick" else 1500
        j.setdefault("max_paths", 300 if tier == "quick" else 5000)
        j["timeout_ms"] = 20000 if tier == "quick" else 90000
    return js
