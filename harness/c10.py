"""C10 - face re-indexing and side/edge/corner addressing hit the intended geometry."""
import numpy as np

import classy_blocks as cb
from classy_blocks.construct.edges import Arc

PROPERTY = "C10"
META = {
    "explanation": "Face.shift/invert/reorient run on a quadrilateral with symbolic corner coordinates, symbolic shift "
                   "count and symbolic target position; Operation.set_patch/project_side/project_edge/project_corner/"
                   "get_face run on a box with symbolic extents and symbolic side/corner selectors, then through the "
                   "real Mesh.assemble; oracles are geometric (extreme coordinate of the side, identity of the marked "
                   "points) and do not use FACE_MAP/edge_map.",
    "bounds": {"shift count": "[-8, 8]", "quad": "shift: unit square + 12 symbolic offsets |d|<=0.2; invert: 4 (quick) / 7 (thorough) symbolic offsets; reorient: two concrete irregular quads, 0 (quick) / 2 (thorough) symbolic offsets, symbolic target",
               "target position": "3 free reals in [-3,3]", "box extents": "3 positive reals in [0.1, 10], origin 3 reals",
               "selectors": "6 sides, 12 corner pairs in both orders, 8 corners (fork on value)"},
    "outside": ["quadrilaterals with offsets > 0.2 from the unit square", "sequences longer than 2 operations"],
    "assumptions": ["reorient: the target is closer to one corner than to the others by a margin of 1e-3 (squared)"],
    "must_reach": ["shift", "invert", "reorient", "set_patch", "project_side", "project_edge", "project_corner",
                   "get_face", "project_edge_seq"],
}

SQ = [(0, 0, 0), (1, 0, 0), (1, 1, 0), (0, 1, 0)]


IRREGULAR = [[(0.03, -0.05, 0.02), (1.1, 0.07, -0.04), (0.93, 1.12, 0.11), (-0.08, 0.95, 0.06)],
             [(2.0, 1.0, -1.0), (2.5, 1.9, -0.7), (1.6, 2.4, -0.2), (1.2, 1.3, -0.9)]]


def _quad(sx, symbolic=None, base=None):
    """unit square (or a concrete irregular quad) + symbolic offsets on the listed (corner, coordinate) pairs"""
    if symbolic is None:
        symbolic = [(i, j) for i in range(4) for j in range(3)]
    symbolic = [tuple(x) for x in symbolic]
    pts = []
    for i, p in enumerate(base or SQ):
        row = []
        for j, c in enumerate(p):
            if (i, j) in symbolic:
                row.append(sx.const(c) + sx.real(f"d{i}{j}", -0.2, 0.2))
            else:
                row.append(sx.const(c))
        pts.append(row)
    return sx.arr(pts)


def _marked_face(sx, pts):
    """face with four distinguishable edge markers (arc edges with distinct points)"""
    markers = [Arc([float(10 + i), 0.5, 0.5]) for i in range(4)]
    face = cb.Face(pts, list(markers))
    return face, markers


def _check_edges_between_same_points(sx, face, old_points, markers, label, key):
    # edge marker k was between old point k and old point k+1; it must still be between these two Point objects
    ok = True
    for i in range(4):
        m = face.edges[i]
        k = next((j for j, mm in enumerate(markers) if mm is m), None)
        if k is None:
            ok = False
            break
        want = {id(old_points[k]), id(old_points[(k + 1) % 4])}
        got = {id(face.points[i]), id(face.points[(i + 1) % 4])}
        if want != got:
            ok = False
    sx.prove(ok, label, key)


def run_shift(sx):
    pts = _quad(sx)
    face, markers = _marked_face(sx, pts)
    old = list(face.points)
    count = sx.integer("count", -8, 8)
    face.shift(count)
    sx.reach("shift")
    sx.prove(sorted(map(id, face.points)) == sorted(map(id, old)), "shift keeps the same four points", "C10:shift:points")
    _check_edges_between_same_points(sx, face, old, markers, "shift keeps every edge between the same two points",
                                     "C10:shift:edges")
    # cyclic order is preserved (a shift is a rotation of the list, not a reflection)
    i0 = next(i for i in range(4) if face.points[0] is old[i])
    sx.prove(all(face.points[k] is old[(i0 + k) % 4] for k in range(4)), "shift preserves the cyclic order",
             "C10:shift:cyclic")
    return "shift"


def _raw_normal(pts):
    c = (pts[0] + pts[1] + pts[2] + pts[3]) / 4
    n = None
    for i in range(4):
        a, b = pts[i] - c, pts[(i + 1) % 4] - c
        cr = np.array([a[1] * b[2] - a[2] * b[1], a[2] * b[0] - a[0] * b[2], a[0] * b[1] - a[1] * b[0]])
        n = cr if n is None else n + cr
    return n


def run_invert(sx, symbolic=None):
    pts = _quad(sx, symbolic)
    face, markers = _marked_face(sx, pts)
    old = list(face.points)
    n_old = _raw_normal([p.position for p in old])
    sx.assume(n_old[2] >= sx.const(0.5), "the quadrilateral is not degenerate (z component of its area vector >= 0.5)")
    n_lib_old = face.normal
    face.invert()
    sx.reach("invert")
    sx.prove(sorted(map(id, face.points)) == sorted(map(id, old)), "invert keeps the same four points",
             "C10:invert:points")
    _check_edges_between_same_points(sx, face, old, markers, "invert keeps every edge between the same two points",
                                     "C10:invert:edges")
    n_new = face.normal  # real library normal (normalised)
    sx.prove_vec_close(n_new, -n_lib_old, "normal after invert == -(normal before invert)", key="C10:invert:normal")
    return "invert"


def run_reorient(sx, pre_shift=0, pre_invert=False, base=0, symbolic=()):
    pts = _quad(sx, [tuple(x) for x in symbolic], IRREGULAR[base])
    face, markers = _marked_face(sx, pts)
    if pre_invert:
        face.invert()
    if pre_shift:
        face.shift(pre_shift)
    old = list(face.points)
    markers_pre = list(face.edges)  # marker k sits between old[k] and old[k+1] (pre-operations are checked separately)
    q = sx.vec(sx.real("qx", -3, 3), sx.real("qy", -3, 3), sx.real("qz", -3, 3))
    d2 = []
    for p in old:
        d = p.position - q
        d2.append(d[0] * d[0] + d[1] * d[1] + d[2] * d[2])
    j = sx.choice("nearest", 4)
    margin = sx.const(1e-3)
    sx.assume(sx.all([d2[j] + margin < d2[i] for i in range(4) if i != j]),
              "target strictly closest (margin 1e-3 on squared distance) to corner j")
    face.reorient(q)
    sx.reach("reorient")
    sx.prove(face.points[0] is old[j], "reorient makes the corner closest to the target the first one",
             "C10:reorient:first-point", info={"nearest": j})
    k0 = next(i for i in range(4) if face.points[0] is old[i])
    sx.prove(sx.all([d2[k0] <= d2[i] for i in range(4)]),
             "no corner is closer to the target than the new first corner (squared distances)",
             "C10:reorient:first-point", info={"nearest": j})
    sx.prove(sorted(map(id, face.points)) == sorted(map(id, old)), "reorient keeps the same four points",
             "C10:reorient:points")
    _check_edges_between_same_points(sx, face, old, markers_pre,
                                     "reorient keeps every edge between the same two points", "C10:reorient:edges")
    i0 = next(i for i in range(4) if face.points[0] is old[i])
    sx.prove(all(face.points[k] is old[(i0 + k) % 4] for k in range(4)), "reorient preserves the cyclic order",
             "C10:reorient:cyclic")
    return f"reorient:{j}"


# ---- addressing on a symbolic box -----------------------------------------------------------------
SIDE_AXIS = {"left": (0, 0), "right": (0, 1), "front": (1, 0), "back": (1, 1), "bottom": (2, 0), "top": (2, 1)}
SIDES = ["left", "right", "front", "back", "bottom", "top"]


def _box(sx):
    o = [sx.real(f"o{i}", -5, 5) for i in range(3)]
    e = [sx.real(f"e{i}", 0.1, 10) for i in range(3)]
    lo = sx.vec(*o)
    hi = sx.vec(o[0] + e[0], o[1] + e[1], o[2] + e[2])
    # diagonal given in a scrambled order on purpose (Box sorts its input)
    box = cb.Box([hi[0], lo[1], hi[2]], [lo[0], hi[1], lo[2]])
    return box, lo, hi


def _on_side(sx, positions, side, lo, hi):
    ax, end = SIDE_AXIS[side]
    want = hi[ax] if end else lo[ax]
    return sx.all([sx.close(p[ax], want, 1e-9) for p in positions])


def _corner_position(lo, hi, corner):
    """blockMesh hexahedron convention for an axis-aligned box: x along 0-1, y along 0-3, z along 0-4"""
    xs = [0, 1, 1, 0, 0, 1, 1, 0][corner]
    ys = [0, 0, 1, 1, 0, 0, 1, 1][corner]
    zs = [0, 0, 0, 0, 1, 1, 1, 1][corner]
    return [hi[0] if xs else lo[0], hi[1] if ys else lo[1], hi[2] if zs else lo[2]]


def run_set_patch_list(sx):
    """set_patch with a list of sides: every listed side gets the patch, whatever the order of the list, no other side does"""
    box, lo, hi = _box(sx)
    a, b, c = sx.choice("first", 6), sx.choice("second", 6), sx.choice("third", 7)
    sides = [SIDES[a]] + ([SIDES[b]] if b != a else []) + ([SIDES[c]] if c < 6 and c not in (a, b) else [])
    box.set_patch(list(sides), "marked")
    box.set_patch(SIDES[(a + 3) % 6] if SIDES[(a + 3) % 6] not in sides else sides[0], "other" if SIDES[(a + 3) % 6] not in sides else "marked")
    mesh = cb.Mesh()
    mesh.add(box)
    mesh.assemble()
    sx.reach("set_patch")
    patch = mesh.patch_list.patches.get("marked")
    quads = [] if patch is None else [[v.position for v in sd.vertices] for sd in patch.sides]
    sx.prove(len(quads) == len(sides), f"set_patch({sides}): one quad per listed side", "C10:set_patch:list:count",
             info={"quads": len(quads), "sides": sides})
    conds = [sx.any([_on_side(sx, q, side, lo, hi) for q in quads]) for side in sides]
    sx.prove(sx.all(conds), f"set_patch({sides}): every listed side carries the patch", "C10:set_patch:list:sides")
    return "set_patch:list"


def run_patches_at_corner(sx):
    """get_patches_at_corner(c): the patches of exactly the (up to three) sides that touch local corner c"""
    box, lo, hi = _box(sx)
    unset = sx.choice("unset", 7)           # one side (or none) is left without a patch
    for k, side in enumerate(SIDES):
        if k != unset:
            box.set_patch(side, f"p_{side}")
    c = sx.choice("corner", 8)
    sx.reach("set_patch")
    got = set(box.get_patches_at_corner(c))
    bits = [(c in (1, 2, 5, 6)), (c in (2, 3, 6, 7)), (c >= 4)]       # corner c: x high?, y high?, z high? (blockMesh convention)
    touching = [s_ for s_ in SIDES if SIDE_AXIS[s_][1] == int(bits[SIDE_AXIS[s_][0]])]
    want = {f"p_{s_}" for s_ in touching if unset == 6 or s_ != SIDES[unset]}
    sx.prove(got == want, f"get_patches_at_corner({c}) lists the patches of the sides {touching} that meet in that corner",
             "C10:patches-at-corner", info={"got": sorted(got), "want": sorted(want)})
    return "set_patch:corner"


def run_set_patch(sx):
    box, lo, hi = _box(sx)
    s = sx.choice("side", 6)
    side = SIDES[s]
    box.set_patch(side, "marked")
    mesh = cb.Mesh()
    mesh.add(box)
    mesh.assemble()
    sx.reach("set_patch")
    patch = mesh.patch_list.patches["marked"]
    sx.prove(len(mesh.patch_list.patches) == 1 and len(patch.sides) == 1, "exactly one patch quad is created",
             "C10:set_patch:count")
    pos = [v.position for v in patch.sides[0].vertices]
    sx.prove(len({v.index for v in patch.sides[0].vertices}) == 4, "patch quad has four distinct vertices",
             "C10:set_patch:distinct")
    sx.prove(_on_side(sx, pos, side, lo, hi), f"set_patch('{side}') marks the quad on that geometric side",
             f"C10:set_patch:{side}")
    # get_face(side) has those corners too
    face = box.get_face(side)
    sx.reach("get_face")
    sx.prove(_on_side(sx, [p.position for p in face.points], side, lo, hi),
             f"get_face('{side}') returns the face on that geometric side", f"C10:get_face:{side}")
    return f"set_patch:{side}"


def run_project_side(sx, edges=False, points=False):
    box, lo, hi = _box(sx)
    s = sx.choice("side", 6)
    side = SIDES[s]
    box.project_side(side, "geo", edges=edges, points=points)
    mesh = cb.Mesh()
    mesh.add(box)
    mesh.assemble()
    sx.reach("project_side")
    faces = mesh.face_list.faces
    sx.prove(len(faces) == 1, "exactly one projected face", "C10:project_side:count")
    pos = [v.position for v in faces[0].side.vertices]
    sx.prove(_on_side(sx, pos, side, lo, hi), f"project_side('{side}') projects the quad on that geometric side",
             f"C10:project_side:{side}")
    if edges:
        pe = [e for e in mesh.edge_list.edges if e.kind == "project"]
        ok = [_on_side(sx, [e.vertex_1.position, e.vertex_2.position], side, lo, hi) for e in pe]
        sx.prove(len(pe) == 4, "project_side(edges=True) projects exactly the four edges of the side",
                 f"C10:project_side:edges-count:{side}", info={"n": len(pe)})
        sx.prove(sx.all(ok), "projected edges lie on the projected side", f"C10:project_side:edges:{side}")
    if points:
        pv = [v for v in mesh.vertices if v.projected_to]
        sx.prove(len(pv) == 4, "project_side(points=True) projects exactly the four corners of the side",
                 f"C10:project_side:points-count:{side}", info={"n": len(pv)})
        sx.prove(_on_side(sx, [v.position for v in pv], side, lo, hi), "projected points lie on the projected side",
                 f"C10:project_side:points:{side}")
    return f"project_side:{side}"


PAIRS = [(0, 1), (1, 2), (2, 3), (3, 0), (4, 5), (5, 6), (6, 7), (7, 4), (0, 4), (1, 5), (2, 6), (3, 7)]


def run_project_edge(sx):
    box, lo, hi = _box(sx)
    k = sx.choice("pair", 12)
    swap = sx.flag("swap")
    c1, c2 = PAIRS[k]
    if swap:
        c1, c2 = c2, c1
    box.project_edge(c1, c2, "geo")
    mesh = cb.Mesh()
    mesh.add(box)
    mesh.assemble()
    sx.reach("project_edge")
    pe = [e for e in mesh.edge_list.edges if e.kind == "project"]
    sx.prove(len(pe) == 1, "exactly one projected edge", "C10:project_edge:count", info={"pair": [c1, c2]})
    if len(pe) == 1:
        e = pe[0]
        w1, w2 = _corner_position(lo, hi, c1), _corner_position(lo, hi, c2)
        fwd = sx.all([sx.close(e.vertex_1.position[i], w1[i], 1e-9) for i in range(3)]
                     + [sx.close(e.vertex_2.position[i], w2[i], 1e-9) for i in range(3)])
        bwd = sx.all([sx.close(e.vertex_1.position[i], w2[i], 1e-9) for i in range(3)]
                     + [sx.close(e.vertex_2.position[i], w1[i], 1e-9) for i in range(3)])
        sx.prove(sx.any([fwd, bwd]), "project_edge(c1,c2) projects the edge between the corners c1 and c2",
                 f"C10:project_edge:{min(c1, c2)}-{max(c1, c2)}", info={"pair": [c1, c2]})
    return f"project_edge:{c1}-{c2}"


def run_project_edge_seq(sx, sides=False):
    """two addressing calls on one operation: each geometric edge must end up with exactly the labels aimed at it"""
    box, lo, hi = _box(sx)
    want = {}

    def aim(c1, c2, label):
        want.setdefault(frozenset((c1, c2)), set()).add(label)

    if sides:
        s1 = sx.choice("side1", 6)
        s2 = sx.choice("side2", 6)
        for side, label in ((SIDES[s1], "ga"), (SIDES[s2], "gb")):
            box.project_side(side, label, edges=True)
            ax, end = SIDE_AXIS[side]
            for (c1, c2) in PAIRS:
                p1, p2 = _CORNER_BITS[c1], _CORNER_BITS[c2]
                if p1[ax] == end and p2[ax] == end:
                    aim(c1, c2, label)
        tag = f"{SIDES[s1]}+{SIDES[s2]}"
    else:
        k1 = sx.choice("pair1", 12)
        k2 = sx.choice("pair2", 12)
        sw = sx.flag("swap2")
        box.project_edge(*PAIRS[k1], "ga")
        c1, c2 = PAIRS[k2]
        if sw:
            c1, c2 = c2, c1
        box.project_edge(c1, c2, "gb")
        aim(*PAIRS[k1], "ga")
        aim(c1, c2, "gb")
        tag = f"{PAIRS[k1]}+{(c1, c2)}"
    mesh = cb.Mesh()
    mesh.add(box)
    mesh.assemble()
    sx.reach("project_edge_seq")
    got = {}
    blk = mesh.blocks[0]
    for e in mesh.edge_list.edges:
        if e.kind != "project":
            continue
        cs = frozenset(i for i, v in enumerate(blk.vertices) if v is e.vertex_1 or v is e.vertex_2)
        got.setdefault(cs, set()).update(e.data.label)
    sx.prove(got == want, "after two projection calls every block edge carries exactly the labels aimed at it",
             "C10:project-sequence:" + ("sides" if sides else "edges"),
             info={"calls": tag, "want": {str(sorted(k)): sorted(v) for k, v in want.items()},
                   "got": {str(sorted(k)): sorted(v) for k, v in got.items()}})
    return "project_edge_seq"


_CORNER_BITS = [(0, 0, 0), (1, 0, 0), (1, 1, 0), (0, 1, 0), (0, 0, 1), (1, 0, 1), (1, 1, 1), (0, 1, 1)]


def run_project_corner(sx):
    box, lo, hi = _box(sx)
    c = sx.choice("corner", 8)
    box.project_corner(c, "geo")
    mesh = cb.Mesh()
    mesh.add(box)
    mesh.assemble()
    sx.reach("project_corner")
    pv = [v for v in mesh.vertices if v.projected_to]
    sx.prove(len(pv) == 1, "exactly one projected vertex", "C10:project_corner:count")
    if len(pv) == 1:
        w = _corner_position(lo, hi, c)
        sx.prove(sx.all([sx.close(pv[0].position[i], w[i], 1e-9) for i in range(3)]),
                 "project_corner(c) projects the vertex at corner c", f"C10:project_corner:{c}")
        sx.prove(mesh.blocks[0].vertices[c] is pv[0], "the projected vertex is block vertex c",
                 f"C10:project_corner:index:{c}")
    return f"project_corner:{c}"


def run_side_edge(sx):
    """add_side_edge(i) must put the edge between corners i and i+4"""
    box, lo, hi = _box(sx)
    i = sx.choice("corner", 4)
    w1, w2 = _corner_position(lo, hi, i), _corner_position(lo, hi, i + 4)
    mid = [(w1[k] + w2[k]) / 2 for k in range(3)]
    mid[0] = mid[0] + sx.const(0.05)
    box.add_side_edge(i, Arc(mid))
    mesh = cb.Mesh()
    mesh.add(box)
    mesh.assemble()
    arcs = [e for e in mesh.edge_list.edges if e.kind == "arc"]
    sx.prove(len(arcs) == 1, "exactly one arc edge", "C10:side_edge:count")
    if len(arcs) == 1:
        e = arcs[0]
        ends = [e.vertex_1.position, e.vertex_2.position]
        sx.prove(sx.all([sx.close(ends[0][k], w1[k], 1e-9) for k in range(3)]
                        + [sx.close(ends[1][k], w2[k], 1e-9) for k in range(3)]),
                 "add_side_edge(i) creates the edge from corner i to corner i+4", f"C10:side_edge:{i}")
    return f"side_edge:{i}"


def jobs(tier, seed):
    js = [
        {"name": "shift", "fn": "run_shift"},
        {"name": "set_patch+get_face", "fn": "run_set_patch"},
        {"name": "set_patch with a list of sides", "fn": "run_set_patch_list"},
        {"name": "get_patches_at_corner", "fn": "run_patches_at_corner"},
        {"name": "project_side", "fn": "run_project_side"},
        {"name": "project_side+edges", "fn": "run_project_side", "params": {"edges": True}},
        {"name": "project_side+points", "fn": "run_project_side", "params": {"points": True}},
        {"name": "project_edge", "fn": "run_project_edge"},
        {"name": "project_corner", "fn": "run_project_corner"},
        {"name": "project_edge x2", "fn": "run_project_edge_seq"},
        {"name": "project_side(edges) x2", "fn": "run_project_edge_seq", "params": {"sides": True}},
        {"name": "side_edge", "fn": "run_side_edge"},
    ]
    js.append({"name": "invert", "fn": "run_invert",
               "params": {"symbolic": [[1, 0], [1, 2], [2, 1], [3, 2]] if tier == "quick" else
                          [[0, 2], [1, 0], [1, 2], [2, 0], [2, 1], [3, 1], [3, 2]]}})
    pre = [(0, False), (1, True)] if tier == "quick" else [(s, i) for s in range(4) for i in (False, True)]
    for ps, pi in pre:
        for base in (0, 1):
            sym = [] if tier == "quick" else [[1, 0], [2, 1]]
            js.append({"name": f"reorient(pre_shift={ps},pre_invert={pi},quad={base},sym={len(sym)})",
                       "fn": "run_reorient", "params": {"pre_shift": ps, "pre_invert": pi, "base": base, "symbolic": sym}})
    for j in js:
        j.setdefault("budget_s", 240 if tier == "quick" else 1200)
    return js
