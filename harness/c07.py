"""C07 - curved-edge entries are unique, on real block edges and correctly directed."""
import math
import os
import tempfile
from fractions import Fraction

import numpy as np

import classy_blocks as cb

from . import bmd, c09, g1

PROPERTY = "C07"
TOL = 1e-7
META = {
    "explanation": "A curved edge of every kind is defined by the user on one of the 12 edge positions of a Loft (face edges "
                   "through Face(points, edges) possibly followed by invert/shift, side edges through add_side_edge), the "
                   "real Mesh.assemble/write run, and the edges section of the written file is read back by the harness "
                   "parser. The user's intent is recorded when the input is built (edge i of a face runs from face point "
                   "i to i+1, side edge i from corner i to i+4, data ordered that way); z3 must show that the written "
                   "polyline (vertex 1, points, vertex 2) equals the intended polyline or its reverse, that arc points "
                   "are the intended ones, that Edge.length is the intended length, that each geometric edge is written "
                   "once, and that straight / zero-length / collinear edges are omitted.",
    "bounds": {"corners": "unit cube, two corners with symbolic jitter |d| <= 0.1", "curve points": "2 interior points, "
               "symbolic offsets |d| <= 0.1", "slots": "all 12 (fork on value)", "face manipulations": "none, invert, shift 1..3",
               "angle edges": "pinned sector angle (half-angle cos/sin 4/5,3/5), axis perpendicular to the edge"},
    "outside": ["curve-snapped edges on spline/analytic curves (closest-parameter search is a numerical minimiser); edges snapped "
                "to a discrete curve are inside: the curve runs with or against the edge (solver's choice)",
                "more than 2 interior points"],
    "assumptions": ["the vertices and edges sections are taken from the real VertexList/EdgeList writers after the real Mesh.assemble; Mesh.write (grading + concatenation) is covered by C06"],
    "must_reach": ["written"],
}

FACE_SLOTS = [(0, 1), (1, 2), (2, 3), (3, 0)]


def _scratch():
    d = os.path.join(os.path.dirname(os.path.dirname(os.path.abspath(__file__))), ".scratch")
    os.makedirs(d, exist_ok=True)
    return d


def write_and_parse(sx, mesh, full=False):
    """edges/vertices sections as produced by the real list writers after the real assemble().
    (Mesh.write itself - grading and the concatenation of all sections - is C06's subject; skipping it here keeps the
    transcendental arc lengths of symbolic geometry out of the grading code.)"""
    if full:
        fd, path = tempfile.mkstemp(dir=_scratch(), suffix=".bmd")
        os.close(fd)
        try:
            mesh.write(path)
            with open(path, encoding="utf-8") as fh:
                text = fh.read()
        finally:
            os.unlink(path)
    else:
        if not mesh.is_assembled:
            mesh.assemble()
        text = ("FoamFile\n{\n    object      blockMeshDict;\n}\n\n" + mesh.vertex_list.description
                + mesh.edge_list.description + "boundary\n(\n);\n\n")
    return bmd.parse(sx, text), text


def _cube(sx, jitter=(2, 5)):
    pts = []
    for k, c in enumerate(g1.CORNERS):
        if k in jitter:
            pts.append([sx.const(c[a]) + sx.real(f"j{k}{a}", -0.1, 0.1) for a in range(3)])
        else:
            pts.append([sx.const(x) for x in c])
    return sx.arr(pts)


def _curve_points(sx, a, b, tag):
    """two interior points roughly between a and b, bulging sideways, with symbolic offsets"""
    out = []
    for i, t in enumerate((Fraction(1, 3), Fraction(2, 3))):
        base = a + (b - a) * sx.const(t)
        off = sx.vec(*[sx.real(f"{tag}{i}{k}", -0.1, 0.1) for k in range(3)])
        out.append(base + off + sx.vec(0.05, 0.08, -0.06) * (i + 1))
    return out


def _close_pts(sx, A, B, tol=1e-8):
    A, B = np.asarray(A), np.asarray(B)
    if A.shape != B.shape:
        return False
    return sx.all([sx.close(x, y, tol) for x, y in zip(A.ravel(), B.ravel())])


def _polylen(sx, pts):
    tot = 0
    for p, q in zip(pts[:-1], pts[1:]):
        d = q - p
        s2 = d[0] * d[0] + d[1] * d[1] + d[2] * d[2]
        tot = tot + (s2.sqrt(nonneg=True) if sx.sym else math.sqrt(s2))
    return tot


def _make_data(sx, kind, a, b, tag="c"):
    """edge data directed from a to b; returns (data, intended interior points or arc point)"""
    if kind in ("spline", "polyLine"):
        pts = _curve_points(sx, a, b, tag)
        return (cb.Spline(pts) if kind == "spline" else cb.PolyLine(pts)), pts
    if kind == "arc":
        mid = (a + b) / 2 + sx.vec(0.11, -0.07, 0.13) + sx.vec(*[sx.real(f"{tag}a{k}", -0.05, 0.05) for k in range(3)])
        return cb.Arc(mid), mid
    if kind == "project":
        return cb.Project("geo"), None
    if kind == "oncurve":
        # an edge snapped to a curve through a, two interior points and b; the curve is parametrised from a to b or (solver's
        # choice) from b to a, i.e. against the direction of the edge
        pts = _curve_points(sx, a, b, tag)
        cpts = [a, *pts, b]
        against = sx.choice("against", 2)
        return cb.OnCurve(cb.DiscreteCurve(cpts[::-1] if against else cpts)), pts
    raise KeyError(kind)


def _build(sx, kind, slot, manip, jitter=(2, 5)):
    P = _cube(sx, jitter)
    bottom_pts, top_pts = [P[i] for i in range(4)], [P[i] for i in range(4, 8)]
    side_edge = None
    want = None
    faces = {}
    for fname, fpts, off in (("bottom", bottom_pts, 0), ("top", top_pts, 4)):
        edges = None
        pre = list(fpts)
        which = None
        if slot < 8 and (slot // 4) == (off // 4):
            # pre-face numbering: the inverse of the manipulation, so that the manipulated face is the target face
            if manip == "invert":
                pre = list(reversed(fpts))
            elif manip.startswith("shift"):
                k = int(manip[5:])
                pre = [fpts[(i + k) % 4] for i in range(4)]   # face.shift(k) rotates the list right by k
            j = slot % 4
            a, b = pre[j], pre[(j + 1) % 4]
            data, intent = _make_data(sx, kind, a, b)
            edges = [None] * 4
            edges[j] = data
            want = (a, b, intent)
            which = fname
        face = cb.Face(pre, edges)
        if which == fname:
            if manip == "invert":
                face.invert()
            elif manip.startswith("shift"):
                face.shift(int(manip[5:]))
        faces[fname] = face
    loft = cb.Loft(faces["bottom"], faces["top"])
    if slot >= 8:
        i = slot - 8
        a, b = P[i], P[i + 4]
        data, intent = _make_data(sx, kind, a, b)
        loft.add_side_edge(i, data)
        want = (a, b, intent)
    for ax in range(3):
        loft.chop(ax, count=2)
    return loft, P, want


def _check_entry(sx, parsed, mesh, kind, want, tag, manip="none"):
    a, b, intent = want
    entries = [e for e in parsed["edges"] if e["kind"] == {"polyLine": "polyLine", "oncurve": "spline"}.get(kind, kind)]
    sx.prove(len(parsed["edges"]) == 1 and len(entries) == 1, f"{tag}: exactly one edge entry of the given kind is written",
             f"C07:{kind}:entry-count", info={"written": [(e["kind"], e["v1"], e["v2"]) for e in parsed["edges"]]})
    if len(entries) != 1:
        return
    e = entries[0]
    v1, v2 = parsed["vertices"][e["v1"]]["pos"], parsed["vertices"][e["v2"]]["pos"]
    fwd = sx.all([_close_pts(sx, v1, a), _close_pts(sx, v2, b)])
    bwd = sx.all([_close_pts(sx, v1, b), _close_pts(sx, v2, a)])
    sx.prove(sx.any([fwd, bwd]), f"{tag}: the entry joins the two vertices of the edge the user addressed",
             f"C07:{kind}:on-edge")
    if kind in ("spline", "polyLine", "oncurve"):
        U = [a, *intent, b]
        W = [np.array(v1, dtype=object if sx.sym else float), *[np.array(p, dtype=object if sx.sym else float) for p in e["data"]],
             np.array(v2, dtype=object if sx.sym else float)]
        same = _close_pts(sx, np.array(W), np.array(U)) if len(W) == len(U) else False
        rev = _close_pts(sx, np.array(W), np.array(U[::-1])) if len(W) == len(U) else False
        sx.prove(sx.any([same, rev]), f"{tag}: written curve (vertex 1, points, vertex 2) is the curve the user described "
                 "(in either direction)", f"C07:{kind}:direction:{manip}")
        # length used for grading
        wire = _wire(mesh, e["v1"], e["v2"])
        sx.prove_close(wire.edge.length, _polylen(sx, U), f"{tag}: Edge.length is the length of the curve the user described",
                       tol=1e-8, key=f"C07:{kind}:length:{manip}")
    elif kind == "arc":
        sx.prove(_close_pts(sx, e["data"], intent), f"{tag}: the written arc point is the given one", f"C07:{kind}:data")


def _wire(mesh, i1, i2):
    for blk in mesh.blocks:
        for w in blk.wire_list:
            if {w.vertices[0].index, w.vertices[1].index} == {i1, i2}:
                return w
    raise AssertionError("no wire for written edge")


def run_slot(sx, kind, manip):
    slot = sx.choice("slot", 12)
    if slot >= 8 and manip != "none":
        return "skip"
    loft, P, want = _build(sx, kind, slot, manip, jitter=() if kind in ("arc", "oncurve") else (2, 5))
    mesh = cb.Mesh()
    mesh.add(loft)
    if kind == "project":
        mesh.add_geometry({"geo": ["type sphere", "origin (0 0 0)", "radius 3"]})
    parsed, _ = write_and_parse(sx, mesh)
    sx.reach("written")
    _check_entry(sx, parsed, mesh, kind, want, f"{kind} on slot {slot} ({manip})", manip)
    return f"slot{slot}"


ANGLE_PINS = {"74": (Fraction(4, 5), Fraction(3, 5)), "-74": (Fraction(4, 5), Fraction(-3, 5)),
              "254": (Fraction(-3, 5), Fraction(4, 5)), "-225": (Fraction(-5, 13), Fraction(-12, 13))}


def run_angle(sx, slot_group, pin="74"):
    """Angle edge with a pinned sector angle on a concrete cube; sense must follow the user's direction"""
    slot = sx.choice("slot", 4) + 4 * slot_group
    P = sx.arr([[float(x) for x in c] for c in g1.CORNERS])
    if slot < 8:
        i, j = FACE_SLOTS[slot % 4]
        a, b = P[i + 4 * (slot // 4)], P[j + 4 * (slot // 4)]
    else:
        a, b = P[slot - 8], P[slot - 4]
    d = b - a
    # rotation axis perpendicular to the edge: pick the lattice axis with the smallest index that is not the edge direction
    dv = [sx.value(x) if sx.sym else float(x) for x in d]
    axis_id = next(k for k in range(3) if abs(dv[k]) < 0.5)
    axis = [0, 0, 0]
    axis[axis_id] = 2   # non-unit
    c2, s2 = ANGLE_PINS[pin]                  # cos, sin of half the sector angle (degrees in the name)
    theta = sx.angle("theta", 2, c2, s2)
    data = cb.Angle(theta, axis)
    bottom = cb.Face([P[k] for k in range(4)], None)
    top = cb.Face([P[k] for k in range(4, 8)], None)
    if slot < 4:
        bottom.add_edge(slot, data)
    elif slot < 8:
        top.add_edge(slot - 4, data)
    loft = cb.Loft(bottom, top)
    if slot >= 8:
        loft.add_side_edge(slot - 8, data)
    for ax in range(3):
        loft.chop(ax, count=2)
    mesh = cb.Mesh()
    mesh.add(loft)
    parsed, _ = write_and_parse(sx, mesh)
    sx.reach("written")
    arcs = [e for e in parsed["edges"] if e["kind"] == "arc"]
    sx.prove(len(arcs) == 1, "angle edge: exactly one arc entry", "C07:angle:entry-count")
    if len(arcs) != 1:
        return "angle"
    # intended third point: the start point rotated by theta/2 about the axis through the centre of the intended arc
    n = np.array([1.0 if k == axis_id else 0.0 for k in range(3)])
    chord = np.array(dv)
    half = 0.5 * np.linalg.norm(chord)
    rm = np.cross(chord, n)
    rm = rm / np.linalg.norm(rm)
    t2 = float(s2) / float(c2)
    a_f = np.array([sx.value(x) if sx.sym else float(x) for x in a])
    centre = a_f + chord / 2 - rm * half / t2
    r0 = a_f - centre
    ch, sh = float(c2), float(s2)
    third = centre + r0 * ch + np.cross(n, r0) * sh + n * np.dot(n, r0) * (1 - ch)
    sx.note("intended_third", [float(x) for x in third])
    sx.prove(_close_pts(sx, arcs[0]["data"], sx.arr(third), 1e-7),
             f"angle edge on slot {slot}: the written arc bulges to the side given by the user's direction and angle",
             "C07:angle:sense", info={"slot": slot})
    return "angle"


def run_duplicate(sx, same_data):
    """two operations define the same geometric edge: one entry"""
    P = _cube(sx, ())
    shiftx = sx.vec(1, 0, 0)
    a, b = P[1], P[2]           # right side of box A = left side of box B, bottom edge 1-2 / 0-3 of B
    d1, i1 = _make_data(sx, "spline", a, b, "c")
    if same_data:
        d2 = cb.Spline(list(reversed(i1)))      # B runs the edge from its corner 3 to 0?  no: B's edge 3->0 is b->a
    else:
        d2, _ = _make_data(sx, "spline", b, a, "e")
    A = cb.Loft(cb.Face([P[k] for k in range(4)], [None, d1, None, None]), cb.Face([P[k] for k in range(4, 8)]))
    Bp = [P[k] + shiftx for k in range(8)]
    B = cb.Loft(cb.Face([Bp[k] for k in range(4)], [None, None, None, d2]), cb.Face([Bp[k] for k in range(4, 8)]))
    for op in (A, B):
        for ax in range(3):
            op.chop(ax, count=2)
    mesh = cb.Mesh()
    mesh.add(A)
    mesh.add(B)
    parsed, _ = write_and_parse(sx, mesh)
    sx.reach("written")
    sx.prove(len(parsed["edges"]) == 1, "an edge defined by two operations is written once", "C07:duplicate:entry-count",
             info={"written": [(e["kind"], e["v1"], e["v2"]) for e in parsed["edges"]]})
    if len(parsed["edges"]) == 1:
        _check_entry(sx, parsed, mesh, "spline", (a, b, i1), "shared edge, first definition wins")
    return "duplicate"


def run_omitted(sx, case):
    P = _cube(sx, ())
    bottom, top = cb.Face([P[k] for k in range(4)]), cb.Face([P[k] for k in range(4, 8)])
    loft = cb.Loft(bottom, top)
    expect = 0
    if case == "collinear-arc":
        lam = sx.real("lam", 0.2, 0.8)
        eps = sx.real("eps", -0.01, 0.01)
        pt = P[0] + (P[4] - P[0]) * lam + sx.vec(1, 0, 0) * eps
        loft.add_side_edge(0, cb.Arc(pt))
        must_omit = sx.all([eps <= sx.const(TOL / 4), eps >= sx.const(-TOL / 4)])
        must_write = sx.any([eps >= sx.const(1e-3), eps <= sx.const(-1e-3)])
    elif case == "line":
        loft.add_side_edge(1, cb.construct.edges.Line())
        must_omit, must_write = True, False
    else:
        # zero-length edge: wedge-like loft whose corners 0 and 3 (and 4 and 7) coincide
        pts = [P[k] for k in range(8)]
        pts[3], pts[7] = pts[0], pts[4]
        bottom, top = cb.Face(pts[:4]), cb.Face(pts[4:])
        bottom.add_edge(3, cb.Arc(pts[0] + sx.vec(0.1, 0.1, 0)))
        loft = cb.Loft(bottom, top)
        must_omit, must_write = True, False
    for ax in range(3):
        loft.chop(ax, count=2)
    mesh = cb.Mesh()
    mesh.add(loft)
    try:
        parsed, _ = write_and_parse(sx, mesh)
    except ZeroDivisionError:
        return "nan"
    sx.reach("written")
    n = len(parsed["edges"])
    sx.prove(sx.implies(must_omit, n == 0), f"{case}: a straight / zero-length / collinear edge is omitted", f"C07:omitted:{case}")
    sx.prove(sx.implies(must_write, n == 1), f"{case}: a genuinely curved arc is written", f"C07:omitted:{case}:over-filtered")
    return case


def run_hinge(sx):
    """zero length is a matter of position, not of vertex identity: a hinge-shaped loft whose top face shares an edge with its
    bottom face, the bottom being the slave side of a merged patch pair - corners 0/4 and 1/5 are different vertices at the
    same place, and the curved edges declared between them must not be written"""
    t = sx.vec(sx.real("tx", -5, 5), sx.real("ty", -5, 5), sx.real("tz", -5, 5))
    P = lambda *c: sx.vec(*c) + t
    bottom = cb.Face([P(0.2, 0.1, 0.3), P(1.2, 0.1, 0.3), P(1.2, 1.1, 0.3), P(0.2, 1.1, 0.3)])
    top = cb.Face([P(0.2, 0.1, 0.3), P(1.2, 0.1, 0.3), P(1.2, 0.9, 0.9), P(0.2, 0.9, 0.9)])
    hinge = cb.Loft(bottom, top)
    hinge.project_side("left", "surf", edges=True)                                   # 3-0, 7-4, 3-7 and the zero-length 0-4
    hinge.add_side_edge(1, cb.PolyLine([P(1.2, 0.1, 0.3), P(1.2, 0.1, 0.3)]))       # 1-5, zero length
    hinge.set_patch("bottom", "slave")
    base = cb.Loft(cb.Face([P(0.2, 0.1, -0.7), P(1.2, 0.1, -0.7), P(1.2, 1.1, -0.7), P(0.2, 1.1, -0.7)]),
                   cb.Face([P(0.2, 0.1, 0.3), P(1.2, 0.1, 0.3), P(1.2, 1.1, 0.3), P(0.2, 1.1, 0.3)]))
    base.set_patch("top", "master")
    mesh = cb.Mesh()
    mesh.add(base)
    mesh.add(hinge)
    mesh.merge_patches("master", "slave")
    mesh.assemble()
    sx.reach("written")
    blk = mesh.blocks[1]
    dup = all(blk.vertices[a].index != blk.vertices[b].index for a, b in ((0, 4), (1, 5)))
    sx.prove(dup, "hinge: the coinciding corners 0/4 and 1/5 are distinct vertices (slave copies)", "C07:hinge:setup")
    conds = []
    for e in mesh.edge_list.edges:
        d = e.vertex_1.position - e.vertex_2.position
        conds.append(d[0] * d[0] + d[1] * d[1] + d[2] * d[2] >= sx.const(1e-14))
    sx.prove(sx.all(conds), "hinge: no edge of zero length is written", "C07:omitted:zero-length:coinciding-vertices",
             info={"edges": [(e.kind, e.vertex_1.index, e.vertex_2.index) for e in mesh.edge_list.edges]})
    sx.prove(len(mesh.edge_list.edges) == 3, "hinge: the three real projected edges are written, each once", "C07:hinge:count",
             info={"edges": len(mesh.edge_list.edges)})
    return "written"


def jobs(tier, seed):
    js = []

    def add(fn, name, **p):
        js.append({"name": name, "fn": fn, "params": p, "budget_s": 280 if tier == "quick" else 1500,
                   "timeout_ms": 20000 if tier == "quick" else 90000})

    manips = ["none", "invert", "shift1"] if tier == "quick" else ["none", "invert", "shift1", "shift2", "shift3"]
    for kind in ("spline", "polyLine", "arc", "project", "oncurve"):
        for m in (manips if kind in ("spline", "arc") or tier == "thorough" else ["none"]):
            add("run_slot", f"{kind}|{m}", kind=kind, manip=m)
    for g in range(3):
        add("run_angle", f"angle|slots {4 * g}-{4 * g + 3}", slot_group=g)
    for pin in ("-74", "254", "-225"):
        for g in ((0, 2) if tier == "quick" else (0, 1, 2)):
            add("run_angle", f"angle|slots {4 * g}-{4 * g + 3}|{pin} deg", slot_group=g, pin=pin)
    add("run_duplicate", "duplicate|same", same_data=True)
    add("run_duplicate", "duplicate|different", same_data=False)
    for case in ("collinear-arc", "line", "zero-length"):
        add("run_omitted", f"omitted|{case}", case=case)
    add("run_hinge", "omitted|zero length between coinciding slave/master vertices")
    return js
