"""C01 - blocks that share an edge always agree on its cell count."""
import itertools

from . import g1

PROPERTY = "C01"
META = {
    "choice_sets": True,
    "explanation": "Concrete lattice topologies are built through Mesh.add(Loft)/assemble; on every block direction a "
                   "chop is present or not (symbolic flag) with a symbolic count in [1,6]; the real Mesh.grade() runs with "
                   "the iteration order of every neighbour/coincident set chosen by the solver. On success the solver must "
                   "show that every pair of wires on one geometric edge has the same count, that the four wires of a "
                   "direction equal the written count, and that two chops in one family cannot differ.",
    "bounds": {"blocks": "<= 3 (quick) / <= 5 (thorough)", "count": "[1,6] symbolic", "chops": "count-only (c2c=1)",
               "topologies": "row2,row3,L,diag-edge,diag-vertex,T(quick: partial flags); thorough adds row4,plate,U, all "
                             "insertion orders and all 24 corner numberings of one block"},
    "outside": ["assemblies of more than 5 blocks", "non-lattice topologies (collapsed edges)", "graded chops (C03/C04)"],
    "assumptions": ["propagation loop cap 4*(3*blocks)^2 calls of the per-block copy step (unwinding assertion; exceeding it "
                    "is reported as non-termination, see C02)"],
    "must_reach": ["ok", "inconsistent"],
}


def install():
    g1.install_counter()


install_conc = install


def _spec(params):
    return {tuple(int(x) for x in k.split(",")): v for k, v in params.items()}


def run(sx, topo, order, rots, spec, regrade=False):
    cells = g1.TOPOLOGIES[topo]
    mesh, blocks = g1.build_mesh(cells, order, rots)
    chops = g1.place_chops(sx, blocks, _spec(spec))
    outcome = g1.grade(mesh, len(cells))
    sx.reach(outcome if not outcome.startswith("crash") else "crash")
    if outcome.startswith("crash"):
        sx.prove(False, "grading a mesh either succeeds or fails with the undefined-/inconsistent-grading error, not with "
                 + outcome[6:], f"%s:crash:{topo}" % PROPERTY, info={"exception": outcome[6:]})
        return outcome
    fams = g1.families(blocks)
    fam_of = {d: k for k, f in enumerate(fams) for d in f}
    tag = f"{topo}"
    if outcome == "ok" and regrade:
        # "whenever writing succeeds": also the second time the same mesh is graded / written
        first = {i: g1.written_counts(sx, blk) for i, blk in blocks.items()}
        again = g1.grade(mesh, len(cells))
        sx.prove(again == "ok", "grading the same mesh a second time succeeds like the first", f"C01:regrade:outcome:{tag}",
                 info={"second": again})
        if again == "ok":
            conds = [a == b for i, blk in blocks.items() for a, b in zip(first[i], g1.written_counts(sx, blk))]
            sx.prove(sx.all(conds), "the second grading writes the same counts as the first", f"C01:regrade:counts:{tag}")
        tag = f"{topo}:second"
    if outcome == "ok":
        # (a) wires on the same geometric edge carry the same count
        conds = []
        for w1, w2, i, j in g1.shared_wire_pairs(blocks):
            conds.append(w1.grading.count == w2.grading.count)
        sx.prove(sx.all(conds), "every edge shared by two blocks has the same cell count in both",
                 f"C01:shared-edge-count:{tag}")
        # (b) four parallel wires == axis count == written count
        conds = []
        for i, blk in blocks.items():
            wc = g1.written_counts(sx, blk)
            for ax in range(3):
                for a, b in g1.AXIS_EDGES[ax]:
                    conds.append(blk.wires[a][b].grading.count == wc[ax])
        sx.prove(sx.all(conds), "the four parallel edges of every block carry the count written for that direction",
                 f"C01:block-direction-count:{tag}")
        # (c) success implies that chops in one family agree
        conds = []
        for (d1, n1), (d2, n2) in itertools.combinations(sorted(chops.items()), 2):
            if fam_of[d1] == fam_of[d2]:
                conds.append(n1 == n2)
        sx.prove(sx.all(conds), "writing succeeds only if all chops of one edge family demand the same count",
                 f"C01:conflict-written-silently:{tag}", info={"chopped": [list(d) for d in sorted(chops)]})
    return outcome


def _all_sym(n):
    return {f"{i},{ax}": "sym" for i in range(n) for ax in range(3)}


def _multi(n, multi_block=0):
    """one block multigraded in all three directions (two divisions each), the others with symbolic chop flags"""
    return {f"{i},{ax}": ("multi" if i == multi_block else "sym") for i in range(n) for ax in range(3)}


def _edge_first_rotations():
    """corner numberings of the first diag-edge cell whose local corner 0 lies on the edge it shares with the second"""
    cells = g1.TOPOLOGIES["diag-edge"]
    second = {tuple(int(round(x)) for x in p) for p in g1.cell_points(cells[1], 0)}
    out = []
    for r in range(24):
        pts = [tuple(int(round(x)) for x in p) for p in g1.cell_points(cells[0], r)]
        if pts[0] in second and any(pts[k] in second for k in (1, 3, 4)):
            out.append(r)
    return out


def _axes_sym(n, axes, fixed_block=0):
    """flags symbolic on the listed lattice axes; on the other axes every block gets the same concrete filler chop"""
    sp = {}
    for i in range(n):
        for ax in range(3):
            if ax in axes:
                sp[f"{i},{ax}"] = "sym"
            else:
                sp[f"{i},{ax}"] = "fix"
    return sp


def jobs(tier, seed):
    js = []

    def add(topo, order, rots, spec, tagx="", regrade=False):
        js.append({"name": f"{topo}|order={''.join(map(str, order))}|rots={rots}{tagx}" + ("|graded twice" if regrade else ""),
                   "fn": "run", "params": {"topo": topo, "order": order, "rots": rots, "spec": spec, "regrade": regrade},
                   "budget_s": 150 if tier == "quick" else 1500, "max_paths": 6000 if tier == "quick" else 200000})

    n = {k: len(v) for k, v in g1.TOPOLOGIES.items()}
    if tier == "quick":
        add("row2", [0, 1], [0, 0], _all_sym(2))
        add("row2", [0, 1], [0, 17], _all_sym(2), regrade=True)
        add("L", [2, 0, 1], [0, 0, 3], _axes_sym(3, [0, 1]), "|sym-axes=[0, 1]", regrade=True)
        add("row2", [1, 0], [0, 5], _all_sym(2))
        add("row2", [0, 1], [0, 13], _multi(2), "|multigraded")
        add("row2", [1, 0], [4, 22], _multi(2, 1), "|multigraded")
        add("row2", [0, 1], [0, 13], _all_sym(2))
        add("row2", [0, 1], [7, 22], _all_sym(2))
        add("diag-edge", [0, 1], [0, 0], _all_sym(2))
        add("diag-edge", [1, 0], [0, 9], _all_sym(2))
        add("diag-vertex", [0, 1], [0, 0], _all_sym(2))
        for axes in ([0], [1, 2]):
            add("row3", [0, 1, 2], [0, 0, 0], _axes_sym(3, axes), f"|sym-axes={axes}")
            add("row3", [2, 0, 1], [0, 11, 0], _axes_sym(3, axes), f"|sym-axes={axes}")
            add("L", [0, 1, 2], [0, 0, 0], _axes_sym(3, axes), f"|sym-axes={axes}")
        add("T", [0, 1, 2, 3], [0, 0, 0, 0], _axes_sym(4, [0]), "|sym-axes=[0]")
        add("T", [0, 2, 1, 3], [0, 0, 0, 0], _axes_sym(4, [1]), "|sym-axes=[1]")
        # five blocks, chops fixed, only the iteration orders of the neighbour sets left to the solver: the two unchopped
        # blocks (1 and 3) are inserted last and are enclosed by graded blocks in the x direction
        spec5 = {f"{i},{ax}": ("fix" if i in (0, 2, 4) or (i == 3 and ax == 1) else "no") for i in range(5) for ax in range(3)}
        add("cross5", [2, 0, 4, 1, 3], [0] * 5, spec5, "|schedules only")
        add("cross5", [0, 2, 4, 3, 1], [0] * 5, spec5, "|schedules only")
        # two blocks that touch along one edge only, numbered so that the shared edge starts at local corner 0 of both
        for r0 in _edge_first_rotations()[::2]:
            add("diag-edge", [0, 1], [r0, 0], _all_sym(2), "|shared edge is the first wire of its axis in both blocks")
        add("T", [3, 1, 0, 2], [0, 0, 0, 0], _axes_sym(4, [1]), "|sym-axes=[1]")
        add("T", [0, 2, 1, 3], [0, 0, 0, 0], _axes_sym(4, [2]), "|sym-axes=[2]")
        add("row4", [0, 2, 1, 3], [0, 0, 0, 0], _axes_sym(4, [1]), "|sym-axes=[1]")
        add("row4", [3, 1, 2, 0], [0, 0, 0, 0], _axes_sym(4, [2]), "|sym-axes=[2]")
        add("T", [0, 1, 2, 3], [0, 0, 0, 0], _axes_sym(4, [2]), "|sym-axes=[2]")
        add("T", [3, 2, 1, 0], [0, 0, 0, 0], _axes_sym(4, [2]), "|sym-axes=[2]")
    else:
        for r in range(24):
            add("row2", [0, 1], [0, r], _all_sym(2))
            add("diag-edge", [1, 0], [0, r], _all_sym(2))
        add("row2", [1, 0], [3, 17], _all_sym(2))
        for r in range(0, 24, 3):
            add("row2", [0, 1], [0, r], _multi(2), "|multigraded")
            add("diag-edge", [1, 0], [r, 0], _multi(2, 1), "|multigraded")
        for r in (0, 6, 17, 21):
            add("row2", [0, 1], [0, r], _all_sym(2), regrade=True)
        for order in ([0, 1, 2], [2, 0, 1]):
            add("L", order, [0, 0, 3], _axes_sym(3, [0, 1]), "|sym-axes=[0, 1]", regrade=True)
            add("row3", order, [0, 11, 0], _axes_sym(3, [0]), "|sym-axes=[0]", regrade=True)
        add("diag-vertex", [0, 1], [0, 0], _all_sym(2))
        for topo in ("row3", "L"):
            for order in itertools.permutations(range(3)):
                for axes in ([0], [1], [2]):
                    add(topo, list(order), [0, 0, 0], _axes_sym(3, axes), f"|sym-axes={axes}")
            for r in (5, 11, 16, 22):
                add(topo, [0, 1, 2], [0, r, 0], _all_sym(3))
        for topo in ("T", "plate", "row4"):
            orders = list(itertools.permutations(range(4)))
            for order in orders[::4]:
                for axes in ([0], [1], [2]):
                    add(topo, list(order), [0, 0, 0, 0], _axes_sym(4, axes), f"|sym-axes={axes}")
        for axes in ([0], [1]):
            add("U", [0, 1, 2, 3, 4], [0] * 5, _axes_sym(5, axes), f"|sym-axes={axes}")
            add("U", [4, 2, 0, 3, 1], [0] * 5, _axes_sym(5, axes), f"|sym-axes={axes}")
    return js
