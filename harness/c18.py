"""C18 - finders are exact; viewpoint re-orientation canonicalises block numbering."""
from fractions import Fraction

import numpy as np

import classy_blocks as cb

from . import c14, g1

PROPERTY = "C18"
TOL = 1e-7
META = {
    "explanation": "GeometricFinder.find_in_sphere / find_on_plane run on a box mesh with symbolic query sphere (centre, "
                   "radius) and plane (point, non-unit normal); RoundSolidFinder.find_core/find_shell run on a Cylinder "
                   "under a symbolic similarity. z3 shows that the returned vertex set is exactly the set defined by the "
                   "squared-distance predicates written in the harness. ViewpointReorienter.reorient runs on a convex "
                   "distorted hexahedron in two different initial numberings with symbolic placement, observer and "
                   "ceiling (inside cones); qhull is replaced by 'two triangles per face, diagonal chosen by the solver'. "
                   "z3 shows: same eight points, right-handed, front side faces the observer, top side faces the "
                   "ceiling, faces of the result are faces of the input, and both initial numberings give the same result.",
    "bounds": {"finder mesh": "one box (sphere), two boxes (plane), one Cylinder (round finder)", "sphere": "centre on one of three pinned lines (1 symbolic real), "
               "radius in [0.05, 3]", "plane": "point on a pinned line (1 real), normal in one of three pinned directions with a symbolic (non-unit) length", "hexahedron": "fixed convex "
               "distorted cube, translated by tau in [-30,30] along one of three pinned directions", "viewpoints": "three pinned direction pairs (observer near -y, ceiling near +z), symbolic distances 5..50 (thorough: "
               "symbolic direction offsets)", "numberings": "identity vs 6 (quick) / 47 (thorough) others incl. mirrored ones",
               "hull diagonals": "2 faces solver-chosen (quick), all 6 (thorough)"},
    "outside": ["non-convex or strongly distorted cells (the class documents failure there)", "qhull itself",
                "queries with a vertex closer than the stated margins to the sphere/plane boundary"],
    "assumptions": ["no vertex within a relative 1e-6 of the sphere surface; no vertex between TOL/2 and 2*TOL from the plane",
                    "ConvexHull of a convex hexahedron = 12 triangles, two per face"],
    "must_reach": ["sphere", "plane", "round", "reorient"],
}

_FACES = {"quads": None}
HEX_FACES = [(0, 1, 2, 3), (4, 5, 6, 7), (0, 1, 5, 4), (1, 2, 6, 5), (2, 3, 7, 6), (3, 0, 4, 7)]


def install():
    import classy_blocks.modify.reorient.viewpoint as VP
    from symx import api

    real = VP.ConvexHull

    class HullModel:
        def __init__(self, points):
            sx = api.CUR
            if sx is None or not sx.sym or _FACES["quads"] is None:
                self.simplices = real(np.array(points, dtype=float)).simplices
                return
            simp = []
            for fi, q in enumerate(_FACES["quads"]):
                d = sx.choice(f"diag{_FACES['tag']}_{fi}", 2) if fi in _FACES["free"] else (fi % 2)
                if d == 0:
                    simp += [[q[0], q[1], q[2]], [q[0], q[2], q[3]]]
                else:
                    simp += [[q[0], q[1], q[3]], [q[1], q[2], q[3]]]
            self.simplices = np.array(simp)
    VP.ConvexHull = HullModel
    META.setdefault("stubs", []).append("modify.reorient.viewpoint: scipy.spatial.ConvexHull -> 12 triangles, two per face of the "
                                        "(convex) hexahedron, the diagonal of each face chosen by the solver")


def _d2(a, b):
    d = a - b
    return d[0] * d[0] + d[1] * d[1] + d[2] * d[2]


LINES = [((-1.0, -0.5, -0.25), (1.0, 0.9, 0.45)), ((0.5, 2.5, 0.3), (0.1, -1.0, 0.05)), ((1.5, 0.75, 2.0), (-0.3, 0.0, -1.0))]


def run_sphere(sx, line=0):
    mesh = cb.Mesh()
    mesh.add(cb.Box([0, 0, 0], [1, 1.5, 0.75]))
    mesh.assemble()
    c0, cd = LINES[line]
    c = sx.vec(*c0) + sx.vec(*cd) * sx.real("s", 0, 3)      # centre on a pinned line through the box region
    r = sx.real("r", Fraction(1, 20), 3)
    for v in mesh.vertices:
        d2 = _d2(sx.arr(v.position), c)
        sx.assume(sx.any([d2 <= r * r * sx.const(1 - 2e-6), d2 >= r * r * sx.const(1 + 2e-6)]), None)
    found = cb.GeometricFinder(mesh).find_in_sphere(c, r)
    sx.reach("sphere")
    conds = []
    for v in mesh.vertices:
        inside = _d2(sx.arr(v.position), c) < r * r
        conds.append(inside if v in found else sx.neg(inside))
    sx.prove(sx.all(conds), "find_in_sphere returns exactly the vertices with squared distance < radius^2", "C18:sphere",
             info={"found": sorted(v.index for v in found)})
    return f"sphere:{len(found)}"


def run_plane(sx, line=0):
    mesh = cb.Mesh()
    mesh.add(cb.Box([0, 0, 0], [1, 1, 1]))
    mesh.add(cb.Box([1, 0, 0], [2, 1, 1]))
    mesh.assemble()
    s = sx.real("s", Fraction(1, 10), 10)
    n = [sx.vec(0, 0, 1), sx.vec(1, 2, 2), sx.vec(2, -1, 2)][line] * s       # pinned direction, symbolic (non-unit) length
    c0, cd = LINES[line]
    o = sx.vec(*c0) + sx.vec(*cd) * sx.real("w", 0, 3)
    nn = _d2(n, n * 0)

    def sd2(v):   # squared distance to the plane times |n|^2
        d = sx.arr(v.position) - o
        t = d[0] * n[0] + d[1] * n[1] + d[2] * n[2]
        return t * t
    for v in mesh.vertices:
        sx.assume(sx.any([sd2(v) <= nn * sx.const(TOL * TOL / 4), sd2(v) >= nn * sx.const(4 * TOL * TOL)]), None)
        sx.assume(_d2(sx.arr(v.position), o) >= sx.const(1e-6), None)   # the plane point is not on a vertex
    found = cb.GeometricFinder(mesh).find_on_plane(o, n)
    sx.reach("plane")
    conds = []
    for v in mesh.vertices:
        on = sd2(v) < nn * sx.const(TOL * TOL)
        conds.append(on if v in found else sx.neg(on))
    sx.prove(sx.all(conds), "find_on_plane returns exactly the vertices within the merge tolerance of the plane", "C18:plane",
             info={"found": sorted(v.index for v in found)})
    return f"plane:{len(found)}"


def run_round(sx, end_face, merged=False):
    k = sx.real("k", Fraction(1, 10), 10)
    t = sx.vec(sx.real("tx", -20, 20), sx.real("ty", -20, 20), sx.real("tz", -20, 20))
    P = lambda x, y, z: t + sx.vec(x, y, z) * k
    cyl = cb.Cylinder(P(0, 0, 0), P(0, 0, 2), P(1, 0, 0))
    mesh = cb.Mesh()
    mesh.add(cyl)
    if merged:
        # the requested end face lies on a face-merged interface: every position there holds a master and a slave vertex,
        # and "exactly those mesh vertices" means both
        other = cb.Cylinder.chain(cyl, k * 1.5, start_face=not end_face)
        (cyl.set_end_patch if end_face else cyl.set_start_patch)("master")
        other.set_start_patch("slave")          # (a chained shape starts on the face it was chained to)
        mesh.add(other)
        mesh.merge_patches("master", "slave")
    mesh.assemble()
    finder = cb.RoundSolidFinder(mesh, cyl)
    core, shell = finder.find_core(end_face), finder.find_shell(end_face)
    sx.reach("round")
    z = 2 if end_face else 0

    def cls(v):
        d = (sx.arr(v.position) - t) / k
        on_face = sx.close(d[2], z, 1e-7)
        r2 = d[0] * d[0] + d[1] * d[1]
        return on_face, r2
    conds_core, conds_shell = [], []
    for v in mesh.vertices:
        on_face, r2 = cls(v)
        is_core = sx.all([on_face, r2 <= sx.const(0.9)])
        is_rim = sx.all([on_face, sx.close(r2, 1, 1e-6)])
        conds_core.append(is_core if v in core else sx.neg(is_core))
        conds_shell.append(is_rim if v in shell else sx.neg(is_rim))
    sx.prove(sx.all(conds_core), "find_core returns exactly the vertices of the requested end face inside the outer radius",
             "C18:round:core", info={"n": len(core)})
    sx.prove(sx.all(conds_shell), "find_shell returns exactly the vertices on the outer rim of the requested end face",
             "C18:round:shell", info={"n": len(shell)})
    if merged:
        sx.prove(len(core) == 18 and len(shell) == 16, "on a merged interface the core holds 9 positions x 2 vertices, the rim 8 x 2",
                 "C18:round:merged-count", info={"core": len(core), "shell": len(shell)})
    return "round"


# ---- viewpoint re-orienter --------------------------------------------------------------------------
HEX = [(0.0, 0.0, 0.0), (1.1, 0.05, -0.05), (1.2, 1.0, 0.05), (0.05, 1.1, 0.0),
       (0.0, -0.05, 0.9), (1.05, 0.0, 1.0), (1.15, 1.05, 1.1), (-0.05, 1.0, 1.05)]


def numbering(idx):
    """idx 0..23 rotations, 24..47 mirrored numberings (points permuted; mirrored ones are left-handed inputs)"""
    perm = c14.hex_perm(idx % 24)
    if idx >= 24:
        perm = [perm[i] for i in (4, 5, 6, 7, 0, 1, 2, 3)]
    return perm


def _reoriented(sx, pts, perm, observer, ceiling, free, tag):
    P = [pts[perm[i]] for i in range(8)]
    inv = {perm[i]: i for i in range(8)}
    _FACES["quads"] = [[inv[c] for c in f] for f in HEX_FACES]
    _FACES["free"] = free
    _FACES["tag"] = tag
    loft = cb.Loft(cb.Face(P[:4]), cb.Face(P[4:]))
    try:
        cb.ViewpointReorienter(observer, ceiling).reorient(loft)
    finally:
        _FACES["quads"] = None
    return loft.point_array


CREASED = [(3, -2, 1), (5, -2, 1), (5, 0, 1), (3, 0, 1), (3, -2, 3), (5, -1, 3), (5, 0, 2), (3, 0, 3)]


def run_reorient_creased(sx, other):
    """a convex block with creased (non-planar) sides seen from an off-axis viewpoint: the two hull triangles of one side have
    clearly different normals. Ground twin only (real qhull decides the diagonals of the creased sides)."""
    pts = [sx.arr(list(p)) for p in CREASED]
    centre = sum(pts[1:], pts[0]) / 8
    observer = centre + sx.vec(0.15, -1, -0.3) * 10
    ceiling = centre + sx.vec(0.1, 0.2, 1) * 10
    try:
        A = _reoriented(sx, pts, numbering(0), observer, ceiling, [], "a")
        Bp = _reoriented(sx, pts, numbering(other), observer, ceiling, [], "b")
    except Exception as e:
        sx.reach("reorient")
        sx.prove(False, f"re-orienting a convex creased block (numbering {other}) succeeds", "C18:reorient:creased:fails",
                 info={"error": f"{type(e).__name__}: {e}"[:120]})
        return "failed"
    sx.reach("reorient")
    tag = f"creased block, numbering {other}"
    sx.prove(sx.all([sx.any([sx.all([sx.close(x, y, 1e-9) for x, y in zip(p, a)]) for a in A]) for p in pts]),
             f"{tag}: the same eight points", "C18:reorient:creased:points")
    e1, e2, e3 = A[1] - A[0], A[3] - A[0], A[4] - A[0]
    cr = [e1[1] * e2[2] - e1[2] * e2[1], e1[2] * e2[0] - e1[0] * e2[2], e1[0] * e2[1] - e1[1] * e2[0]]
    sx.prove(cr[0] * e3[0] + cr[1] * e3[1] + cr[2] * e3[2] > 0, f"{tag}: right-handed", "C18:reorient:creased:right-handed")
    cA = sum(A[1:], A[0]) / 8

    def towards(idx, target):
        fc = (A[idx[0]] + A[idx[1]] + A[idx[2]] + A[idx[3]]) / 4
        out, to = fc - cA, target - cA
        return out[0] * to[0] + out[1] * to[1] + out[2] * to[2]
    lat = {"front": (0, 1, 5, 4), "back": (3, 2, 6, 7), "left": (0, 3, 7, 4), "right": (1, 2, 6, 5)}
    f_ = {k: towards(v, observer) for k, v in lat.items()}
    sx.prove(sx.all([f_["front"] > 0] + [f_["front"] >= f_[k] for k in ("back", "left", "right")]),
             f"{tag}: the front side faces the observer", "C18:reorient:creased:front")
    sx.prove(towards((4, 5, 6, 7), ceiling) > towards((0, 1, 2, 3), ceiling), f"{tag}: the top side faces the ceiling point",
             "C18:reorient:creased:top")
    sx.prove(sx.all([sx.close(x, y, 1e-9) for a, b in zip(A, Bp) for x, y in zip(a, b)]),
             f"{tag}: the result does not depend on the initial numbering", "C18:reorient:creased:numbering-independent")
    return "reorient"


def run_reorient_reuse(sx, other, free):
    """one ViewpointReorienter applied to several blocks in turn (as in the library's own chaining examples): every block
    is oriented by where IT is relative to the observer, not by where an earlier block was. Concrete geometry (what is
    quantified is the call sequence, the initial numbering and the hull's choice of face diagonals)"""
    observer, ceiling = sx.vec(15, -20, 3), sx.vec(17, -12, 60)
    # seen from the observer: block 1 shows its -y side (mostly), block 2 its -x side, block 3 its +x side
    places = [sx.vec(0, 0, 0), sx.vec(40, -22, 0), sx.vec(-25, -19, 1)]
    re = cb.ViewpointReorienter(observer, ceiling)
    perm = numbering(other)
    inv = {perm[i]: i for i in range(8)}
    for bi, t in enumerate(places):
        pts = [sx.arr(list(p)) + t for p in HEX]
        P = [pts[perm[i]] for i in range(8)] if bi else pts
        _FACES["quads"] = [[(inv[c] if bi else c) for c in f] for f in HEX_FACES]
        _FACES["free"] = free if bi == 1 else []
        _FACES["tag"] = f"r{bi}"
        loft = cb.Loft(cb.Face(P[:4]), cb.Face(P[4:]))
        try:
            re.reorient(loft)
        finally:
            _FACES["quads"] = None
        A = loft.point_array
        sx.reach("reorient")
        tag = f"block {bi + 1} of 3 given to the same reorienter (numbering {other if bi else 0})"
        conds = [sx.any([sx.all([sx.close(x, y, 1e-9) for x, y in zip(p, a)]) for a in A]) for p in pts]
        sx.prove(sx.all(conds), f"{tag}: the result has the same eight points", "C18:reorient:reuse:points")
        e1, e2, e3 = A[1] - A[0], A[3] - A[0], A[4] - A[0]
        cr = [e1[1] * e2[2] - e1[2] * e2[1], e1[2] * e2[0] - e1[0] * e2[2], e1[0] * e2[1] - e1[1] * e2[0]]
        sx.prove(cr[0] * e3[0] + cr[1] * e3[1] + cr[2] * e3[2] > 0, f"{tag}: right-handed", "C18:reorient:reuse:right-handed")
        cA = (A[0] + A[1] + A[2] + A[3] + A[4] + A[5] + A[6] + A[7]) / 8

        def towards(idx, target):
            fc = (A[idx[0]] + A[idx[1]] + A[idx[2]] + A[idx[3]]) / 4
            out, to = fc - cA, target - cA
            return out[0] * to[0] + out[1] * to[1] + out[2] * to[2]
        sides = {"front": (0, 1, 5, 4), "back": (3, 2, 6, 7), "left": (0, 3, 7, 4), "right": (1, 2, 6, 5), "top": (4, 5, 6, 7),
                 "bottom": (0, 1, 2, 3)}
        f_ = {k: towards(v, observer) for k, v in sides.items()}
        sx.prove(sx.all([f_["front"] > 0] + [f_["front"] >= f_[k] for k in ("back", "left", "right")]),
                 f"{tag}: of the four lateral sides, the front side faces the observer most", "C18:reorient:reuse:front")
        sx.prove(sx.all([towards(sides["top"], ceiling) > 0, towards(sides["top"], ceiling) > towards(sides["bottom"], ceiling)]),
                 f"{tag}: the top side faces the ceiling point", "C18:reorient:reuse:top")
    return "reorient"


DIRS = [((0.2, 0.1), (0.1, 0.15)), ((-0.3, 0.25), (-0.2, 0.3)), ((0.0, -0.3), (0.3, -0.1))]


def run_reorient(sx, other, free, dirs=0, symbolic_dirs=False, symbolic_dist=False):
    if sx.sym or "tau" in sx.model:
        return _run_reorient(sx, other, free, dirs, symbolic_dirs, symbolic_dist)
    # replay of a counterexample whose model could not be extracted (solver time-out on the full path condition):
    # search the placement parameter on the real code
    out = None
    for tau in (0, 30, -30, 20, -20, 12, -12, 25, -25, 6, -6):
        n = len(sx.failed)
        sx.model["tau"] = tau
        for dc in (8, 5, 20):
            sx.model["dist_c"] = dc
            out = _run_reorient(sx, other, free, dirs, symbolic_dirs, symbolic_dist)
            if len(sx.failed) > n:
                sx.note("searched_tau", tau)
                return out
    return out


def _run_reorient(sx, other, free, dirs=0, symbolic_dirs=False, symbolic_dist=False):
    tdir = [(0.0, 0.0, 1.0), (1.0, 0.0, 0.0), (0.3, -0.2, 0.6)][dirs]
    t = sx.vec(*tdir) * sx.real("tau", -30, 30)          # placement along a pinned direction (one symbolic real)
    pts = [sx.arr(list(p)) + t for p in HEX]
    centre = sum(pts[1:], pts[0]) / 8
    if symbolic_dist:
        dist_o, dist_c = sx.real("dist_o", 5, 50), sx.real("dist_c", 5, 50)
    else:
        dist_o, dist_c = sx.const(30), sx.const(8)
    (u, v), (w, q) = DIRS[dirs]
    if symbolic_dirs:
        u, v = sx.const(u) + sx.real("du", -0.05, 0.05), sx.const(v) + sx.real("dv", -0.05, 0.05)
    observer = centre + sx.vec(u, -1, v) * dist_o
    ceiling = centre + sx.vec(w, q, 1) * dist_c
    from symx.core import NaNProduced
    try:
        A = _reoriented(sx, pts, numbering(0), observer, ceiling, free, "a")
        Bp = _reoriented(sx, pts, numbering(other), observer, ceiling, free, "b")
    except ZeroDivisionError:
        return "degenerate"
    except Exception as e:
        if type(e).__name__ != "DegenerateGeometryError":
            raise
        sx.reach("reorient")
        sx.prove(False, "re-orienting a convex block from a viewpoint in front of / above it succeeds",
                 "C18:reorient:fails", info={"error": str(e)[:80]})
        return "failed"
    sx.reach("reorient")
    tag = f"numbering {other}"
    # (1) the same eight points
    conds = []
    for p in pts:
        conds.append(sx.any([sx.all([sx.close(x, y, 1e-9) for x, y in zip(p, a)]) for a in A]))
    sx.prove(sx.all(conds) and len(A) == 8, f"{tag}: the result has the same eight points", "C18:reorient:points")
    # (2) right-handed
    e1, e2, e3 = A[1] - A[0], A[3] - A[0], A[4] - A[0]
    cr = np.array([e1[1] * e2[2] - e1[2] * e2[1], e1[2] * e2[0] - e1[0] * e2[2], e1[0] * e2[1] - e1[1] * e2[0]], dtype=e1.dtype)
    sx.prove(cr[0] * e3[0] + cr[1] * e3[1] + cr[2] * e3[2] > 0, f"{tag}: the re-oriented block is right-handed", "C18:reorient:right-handed")
    # (3,4) front side (corners 0 1 5 4) faces the observer, top side (4 5 6 7) faces the ceiling
    cA = (A[0] + A[1] + A[2] + A[3] + A[4] + A[5] + A[6] + A[7]) / 8

    def faces_towards(idx, target):
        fc = (A[idx[0]] + A[idx[1]] + A[idx[2]] + A[idx[3]]) / 4
        out = fc - cA
        to = target - cA
        return out[0] * to[0] + out[1] * to[1] + out[2] * to[2]
    front, back = faces_towards((0, 1, 5, 4), observer), faces_towards((3, 2, 6, 7), observer)
    top, bottom = faces_towards((4, 5, 6, 7), ceiling), faces_towards((0, 1, 2, 3), ceiling)
    sx.prove(sx.all([front > 0, front > back]), f"{tag}: the front side faces the observer", "C18:reorient:front")
    sx.prove(sx.all([top > 0, top > bottom]), f"{tag}: the top side faces the ceiling point", "C18:reorient:top")
    # (5) independent of the initial numbering
    sx.prove(sx.all([sx.close(x, y, 1e-9) for a, b in zip(A, Bp) for x, y in zip(a, b)]),
             f"{tag}: the result does not depend on the initial numbering", "C18:reorient:numbering-independent", info={"other": other})
    return "reorient"


def jobs(tier, seed):
    js = []
    for line in range(3):
        if line or tier == "thorough":
            js.append({"name": f"sphere|line {line}", "fn": "run_sphere", "params": {"line": line}, "max_paths": 3000})
        js.append({"name": f"plane|family {line}", "fn": "run_plane", "params": {"line": line}, "max_paths": 3000})
    js += [{"name": "round|start", "fn": "run_round", "params": {"end_face": False}},
           {"name": "round|end", "fn": "run_round", "params": {"end_face": True}},
           {"name": "round|end|on a merged interface", "fn": "run_round", "params": {"end_face": True, "merged": True}},
           {"name": "round|start|on a merged interface", "fn": "run_round", "params": {"end_face": False, "merged": True}}]
    others = (5, 10, 17, 22, 29, 40) if tier == "quick" else tuple(range(1, 48))
    for k, o in enumerate(others):
        js.append({"name": f"reorient|identity vs {o}|dirs {k % 3}", "fn": "run_reorient",
                   "params": {"other": o, "free": [0, 3] if tier == "quick" else [0, 1, 2, 3, 4, 5], "dirs": k % 3,
                              "symbolic_dirs": tier == "thorough" and k % 8 == 0, "symbolic_dist": k % 2 == 1}})
    for o in ((3, 14, 22, 31, 45) if tier == "quick" else tuple(range(1, 48, 3))):
        js.append({"name": f"reorient|creased block|numbering {o}|ground twin only", "fn": "run_reorient_creased",
                   "params": {"other": o}, "symbolic": False})
    for o in ((0, 17) if tier == "quick" else (0, 5, 17, 29, 40)):
        js.append({"name": f"reorient|one reorienter, three blocks|numbering {o}", "fn": "run_reorient_reuse",
                   "params": {"other": o, "free": [0, 3]}})
    for j in js:
        j["budget_s"] = 280 if tier == "quick" else 1500
        j["timeout_ms"] = 20000 if tier == "quick" else 90000
    return js
