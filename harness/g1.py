"""G1: grading harness core shared by C01, C02 (and C04/C11).

Builds a concrete block topology through the public API, places chops symbolically (flag + count per block
direction), runs the real Mesh.grade() with the iteration order of every Axis.neighbours / Wire.coincidents set
chosen by the solver, and exposes the final state."""
import itertools
import re

import numpy as np

import classy_blocks as cb
from classy_blocks.base.exceptions import InconsistentGradingsError, UndefinedGradingsError
from classy_blocks.grading.chop import Chop
from classy_blocks.items.block import Block

# blockMesh hexahedron convention, restated here (not imported from the library)
CORNERS = [(0, 0, 0), (1, 0, 0), (1, 1, 0), (0, 1, 0), (0, 0, 1), (1, 0, 1), (1, 1, 1), (0, 1, 1)]
AXIS_EDGES = (
    ((0, 1), (3, 2), (7, 6), (4, 5)),
    ((0, 3), (1, 2), (5, 6), (4, 7)),
    ((0, 4), (1, 5), (2, 6), (3, 7)),
)


def rotations():
    """the 24 proper rotations of the cube as 3x3 signed permutation matrices"""
    out = []
    for perm in itertools.permutations(range(3)):
        for signs in itertools.product((1, -1), repeat=3):
            m = np.zeros((3, 3), dtype=int)
            for i in range(3):
                m[i, perm[i]] = signs[i]
            if round(np.linalg.det(m)) == 1:
                out.append(m)
    return out


ROTS = rotations()


def cell_points(cell, rot=0, mirror=False):
    """8 corner points of the unit lattice cell, numbered by rotation `rot` of the canonical numbering"""
    m = ROTS[rot]
    c = np.array(cell, dtype=float) + 0.5
    pts = []
    for k in CORNERS:
        v = np.array(k, dtype=float) - 0.5
        if mirror:
            v = v * np.array([-1, 1, 1])
        pts.append(c + m @ v)
    return pts


TOPOLOGIES = {
    "row2": [(0, 0, 0), (1, 0, 0)],
    "row3": [(0, 0, 0), (1, 0, 0), (2, 0, 0)],
    "row4": [(0, 0, 0), (1, 0, 0), (2, 0, 0), (3, 0, 0)],
    "plate": [(0, 0, 0), (1, 0, 0), (0, 1, 0), (1, 1, 0)],
    "L": [(0, 0, 0), (1, 0, 0), (0, 1, 0)],
    "T": [(0, 0, 0), (1, 0, 0), (2, 0, 0), (1, 1, 0)],
    "diag-edge": [(0, 0, 0), (1, 1, 0)],
    "diag-vertex": [(0, 0, 0), (1, 1, 1)],
    "U": [(0, 0, 0), (1, 0, 0), (2, 0, 0), (0, 1, 0), (2, 1, 0)],
    # a column of three with a row of two attached to its middle cell (cells 1 and 3 can be enclosed by graded blocks)
    "cross5": [(0, 0, 0), (0, 0, 1), (0, 0, 2), (0, 1, 1), (0, 2, 1)],
}


class NonTermination(Exception):
    pass


_CALLS = {"n": 0, "cap": 10 ** 9}
_orig_copy_grading = None


def install_counter():
    """unwinding assertion on the propagation loop: cap on calls of the per-block copy step"""
    global _orig_copy_grading
    if _orig_copy_grading is not None:
        return
    _orig_copy_grading = Block.copy_grading

    def counted(self):
        _CALLS["n"] += 1
        if _CALLS["n"] > _CALLS["cap"]:
            raise NonTermination(f"copy step called more than {_CALLS['cap']} times")
        return _orig_copy_grading(self)

    Block.copy_grading = counted


def build_mesh(cells, order=None, rots=None):
    order = list(order) if order is not None else list(range(len(cells)))
    rots = rots or [0] * len(cells)
    mesh = cb.Mesh()
    ops = {}
    for i in order:
        pts = cell_points(cells[i], rots[i])
        op = cb.Loft(cb.Face(pts[:4]), cb.Face(pts[4:]))
        ops[i] = op
        mesh.add(op)
    mesh.assemble()
    # blocks are in insertion order; map cell index -> block
    blocks = {i: mesh.blocks[k] for k, i in enumerate(order)}
    return mesh, blocks


def families(blocks):
    """independent oracle: union-find over (cell, axis) joined through shared (unordered) vertex pairs"""
    parent = {}

    def find(x):
        while parent.setdefault(x, x) != x:
            parent[x] = parent[parent[x]]
            x = parent[x]
        return x

    edge_owner = {}
    for i, blk in blocks.items():
        idx = [v.index for v in blk.vertices]
        for ax in range(3):
            find((i, ax))
            for a, b in AXIS_EDGES[ax]:
                key = frozenset((idx[a], idx[b]))
                if len(key) < 2:
                    continue
                if key in edge_owner:
                    ra, rb = find(edge_owner[key]), find((i, ax))
                    if ra != rb:
                        parent[ra] = rb
                else:
                    edge_owner[key] = (i, ax)
    fams = {}
    for x in list(parent):
        fams.setdefault(find(x), []).append(x)
    return [sorted(v) for v in fams.values()]


def shared_wire_pairs(blocks):
    """pairs of wires of different blocks on the same unordered vertex pair (oracle, from vertex indices)"""
    seen = {}
    pairs = []
    for i, blk in blocks.items():
        idx = [v.index for v in blk.vertices]
        for ax in range(3):
            for a, b in AXIS_EDGES[ax]:
                key = frozenset((idx[a], idx[b]))
                w = blk.wires[a][b]
                for (j, w2) in seen.get(key, []):
                    if j != i:
                        pairs.append((w, w2, i, j))
                seen.setdefault(key, []).append((i, w))
    return pairs


_TRIPLE = re.compile(r"hex \( [^)]*\)\s+\S*\s*\( (\S+) (\S+) (\S+) \)")


def written_counts(sx, block):
    """( nx ny nz ) as written in the hex line of the real Block.description"""
    text = block.description
    m = _TRIPLE.search(text)
    if not m:
        raise AssertionError(f"cannot parse hex line: {text!r}")
    return [untoken(sx, t) for t in m.groups()]


def untoken(sx, t):
    if t.startswith("«"):
        return sx.ctx.tokens[int(t[1:-1])]
    try:
        return int(t)
    except ValueError:
        return float(t)


def place_chops(sx, blocks, spec, lo=1, hi=6):
    """spec: {(cell, axis): "sym" | "yes" | "no"}; returns {(cell, axis): count} for chopped directions"""
    chops = {}
    for (i, ax) in sorted(spec):
        mode = spec[(i, ax)]
        if mode == "no":
            continue
        if mode == "fix":
            # concrete filler chop (same count everywhere, so it can neither conflict nor be missing)
            blocks[i].chop(ax, Chop(count=2))
            chops[(i, ax)] = 2
            continue
        if mode == "multi":
            # a multigraded direction: two divisions with their own (symbolic) counts; the direction's count is their sum
            n1, n2 = sx.integer(f"n_{i}_{ax}_a", 1, 3), sx.integer(f"n_{i}_{ax}_b", 1, 3)
            blocks[i].chop(ax, Chop(length_ratio=0.4, count=n1))
            blocks[i].chop(ax, Chop(length_ratio=0.6, count=n2))
            chops[(i, ax)] = n1 + n2
            continue
        if mode == "sym" and not sx.flag(f"chop_{i}_{ax}"):
            continue
        n = sx.integer(f"n_{i}_{ax}", lo, hi)
        blocks[i].chop(ax, Chop(count=n))
        chops[(i, ax)] = n
    return chops


SENTINEL = "// a complete dictionary from an earlier run\n"
LAST_WRITE = {}


def grade(mesh, nblocks, via_write=False):
    """grades through the real Mesh.grade(), or (via_write) through the real Mesh.write() into a scratch file that
    already holds a dictionary; LAST_WRITE then tells what the file holds afterwards"""
    _CALLS["n"] = 0
    _CALLS["cap"] = 4 * (3 * nblocks) ** 2
    path = None
    if via_write:
        import os
        import tempfile

        d = os.path.join(os.path.dirname(os.path.dirname(os.path.abspath(__file__))), ".scratch")
        os.makedirs(d, exist_ok=True)
        fd, path = tempfile.mkstemp(dir=d, suffix=".bmd")
        os.write(fd, SENTINEL.encode())
        os.close(fd)
    try:
        if via_write:
            mesh.write(path)
        else:
            mesh.grade()
        return "ok"
    except UndefinedGradingsError:
        return "undefined"
    except InconsistentGradingsError:
        return "inconsistent"
    except NonTermination:
        return "nonterm"
    except Exception as e:      # (the engine's own control-flow exceptions are BaseExceptions and pass through)
        return "crash:" + type(e).__name__
    finally:
        _CALLS["cap"] = 10 ** 9
        if path is not None:
            import os

            LAST_WRITE.clear()
            if os.path.exists(path):
                with open(path, encoding="utf-8") as fh:
                    text = fh.read()
                os.unlink(path)
                LAST_WRITE.update({"exists": True, "untouched": text == SENTINEL, "bytes": len(text),
                                   "complete": all(k in text for k in ("FoamFile", "vertices", "blocks", "edges", "boundary",
                                                                       "mergePatchPairs")) and text.count("hex ") == nblocks})
            else:
                LAST_WRITE.update({"exists": False, "untouched": False, "bytes": 0, "complete": False})
