"""C14 - the block quality measure depends only on the cell's shape."""
from fractions import Fraction

import numpy as np
import z3

from classy_blocks.optimize.cell import HexCell, QuadCell

from . import c09, g1

PROPERTY = "C14"
META = {
    "explanation": "CellBase.quality (HexCell/QuadCell, with and without a neighbour) runs on low-dimensional symbolic shape "
                   "families (boxes a x b x c, sheared boxes, tapered frusta, one symbolic corner offset; rectangles, "
                   "sheared/tapered quads). arccos, log10 and base**x are uninterpreted functions, so equality of two "
                   "quality values reduces to equality of their (algebraic) arguments, which z3 decides. Obligations: "
                   "quality(renumbered cell) == quality(cell) for all 24 (4) rotational renumberings, quality after "
                   "translation / pinned rotation / uniform scaling == quality before, re-reading the quality of the same "
                   "cell object after moving the grid in place, stretching a cube never lowers the value and raises it "
                   "equally in the three directions.",
    "bounds": {"hex families": "box(a,b,c), sheared box (symbolic shear s), frustum (symbolic taper t), box with one "
               "symbolic corner offset", "quad families": "rectangle(a,b), sheared, tapered", "renumberings": "24 / 4",
               "rotations": "pinned (axis (1,2,2), (3/5,4/5))", "scale": "rho in [0.1, 100]", "neighbours": "0 or 1"},
    "outside": ["free jitter of all 8 corners", "rotations outside the pinned set", "uniform scaling with the library's "
                "VSMALL guard != 0 (the scale obligation is stated for VSMALL := 0, 'sizes well above the guard')"],
    "assumptions": ["ground monotonicity instances: log10(x) >= 0 iff x >= 1; b**e >= 1 iff e >= 0 (b > 1); b**e1 >= b**e2 "
                    "iff e1 >= e2", "scale/stretch obligations: VSMALL := 0 in optimize.cell"],
    "must_reach": ["renumber", "motion", "stretch"],
}

CORNERS = g1.CORNERS


def hex_perm(rot):
    """corner permutation of rotation `rot`: renumbered cell corner i is canonical corner perm[i]"""
    m = g1.ROTS[rot]
    perm = []
    for k in CORNERS:
        v = m @ (np.array(k) - 0.5) + 0.5
        perm.append(CORNERS.index(tuple(int(round(x)) for x in v)))
    return perm


def hex_points(sx, family):
    """8 x 3 points of the family, canonical numbering"""
    a, b, c = sx.real("a", 0.2, 5), sx.real("b", 0.2, 5), sx.real("c", 0.2, 5)
    pts = []
    if family == "box":
        for (i, j, k) in CORNERS:
            pts.append([a * i, b * j, c * k])
    elif family == "sheared":
        s = sx.real("s", -0.5, 0.5)
        for (i, j, k) in CORNERS:
            pts.append([a * i + s * k, b * j, c * k])
    elif family == "frustum":
        t = sx.real("t", 0.5, 1)
        for (i, j, k) in CORNERS:
            f = t if k else sx.const(1)
            pts.append([a * (i - 0.5) * f, b * (j - 0.5) * f, c * k])
    elif family == "offset":
        d = [sx.real(f"d{i}", -0.2, 0.2) for i in range(3)]
        for n, (i, j, k) in enumerate(CORNERS):
            p = [a * i, b * j, c * k]
            if n == 6:
                p = [p[0] + d[0], p[1] + d[1], p[2] + d[2]]
            pts.append(p)
    elif family == "concrete":
        base = [(0, 0, 0), (1.2, 0.1, -0.1), (1.3, 0.9, 0.0), (0.1, 1.1, 0.1), (0.05, -0.1, 0.8), (1.1, 0.0, 1.0),
                (1.25, 1.05, 0.9), (-0.1, 1.0, 1.1)]
        pts = [[sx.const(x) for x in p] for p in base]
    else:
        raise KeyError(family)
    return sx.arr(pts)


def quad_points(sx, family):
    a, b = sx.real("a", 0.2, 5), sx.real("b", 0.2, 5)
    sq = [(0, 0), (1, 0), (1, 1), (0, 1)]
    pts = []
    if family == "rect":
        pts = [[a * i, b * j, 0 * a] for i, j in sq]
    elif family == "sheared":
        s = sx.real("s", -0.5, 0.5)
        pts = [[a * i + s * j, b * j, 0 * a] for i, j in sq]
    elif family == "tapered":
        t = sx.real("t", 0.5, 1)
        pts = [[a * (i - 0.5) * (t if j else sx.const(1)), b * j, 0 * a] for i, j in sq]
    else:
        raise KeyError(family)
    return sx.arr(pts)


def _axioms(sx):
    """ground instances of monotonicity of log10 and b**x on the applications that occurred"""
    if not sx.sym:
        return
    ctx = sx.ctx
    apps = list(ctx.uf_apps)
    logs = [(a, g) for n, a, g in apps if n == "LOG10"]
    pows = [(a, g) for n, a, g in apps if n == "POW"]
    for a, g in logs:
        x, y = a.z(), ctx.zv[g]
        ctx.add(z3.And(z3.Implies(x > 1, y > 0), z3.Implies(x == 1, y == 0), z3.Implies(x < 1, y < 0)))
    for (b, e), g in pows:
        bc = b.concrete()
        if bc is None or bc <= 1:
            continue
        x, y = e.z(), ctx.zv[g]
        ctx.add(z3.And(y > 0, z3.Implies(x > 0, y > 1), z3.Implies(x == 0, y == 1), z3.Implies(x < 0, y < 1)))
    for i in range(len(logs)):
        for j in range(i + 1, len(logs)):
            (a1, g1_), (a2, g2_) = logs[i], logs[j]
            ctx.add(z3.Implies(a1.z() >= a2.z(), ctx.zv[g1_] >= ctx.zv[g2_]))
            ctx.add(z3.Implies(a1.z() <= a2.z(), ctx.zv[g1_] <= ctx.zv[g2_]))
    for i in range(len(pows)):
        for j in range(i + 1, len(pows)):
            ((b1, e1), g1_), ((b2, e2), g2_) = pows[i], pows[j]
            if b1.concrete() is not None and b1.concrete() == b2.concrete() and b1.concrete() > 1:
                ctx.add(z3.Implies(e1.z() >= e2.z(), ctx.zv[g1_] >= ctx.zv[g2_]))
                ctx.add(z3.Implies(e1.z() <= e2.z(), ctx.zv[g1_] <= ctx.zv[g2_]))


def _set_vsmall(value):
    import classy_blocks.optimize.cell as CE
    old = CE.VSMALL
    CE.VSMALL = value
    return old


def _tol(sx, q):
    """1e-9 for the exact (symbolic) comparison; in doubles the quality of a nearly perfect cell is conditioned no better than
    ~1e-7 (it is a steep function of tiny angle deviations), so the replay compares relative to the size of the value"""
    return 1e-9 if sx.sym else 4e-6 * (1 + abs(float(q)))


def _cell(cls, pts, idx):
    return cls(pts, list(idx))


def _quality(cell):
    try:
        return cell.quality
    except ZeroDivisionError:
        return None


def run_renumber(sx, dim, family, rot, neighbour=False):
    if dim == 3:
        pts = hex_points(sx, family)
        perm = hex_perm(rot)
        cls = HexCell
    else:
        pts = quad_points(sx, family)
        perm = [(i + rot) % 4 for i in range(4)]
        cls = QuadCell
    c1, c2 = _cell(cls, pts, range(len(perm))), _cell(cls, pts, perm)
    if neighbour:
        # a second cell across the x = a side, same for both numberings
        n = len(perm)
        shift = pts[1] - pts[0]
        allp = np.concatenate((pts, pts + shift))
        c1, c2 = _cell(cls, allp, range(n)), _cell(cls, allp, perm)
        nb = _cell(cls, allp, range(n, 2 * n))
        for c in (c1, c2):
            c.add_neighbour(nb)
    q1, q2 = _quality(c1), _quality(c2)
    if q1 is None or q2 is None:
        return "degenerate"
    sx.reach("renumber")
    _axioms(sx)
    sx.note("perm", perm)
    sx.prove_close(q2, q1, f"{cls.__name__} quality is unchanged by the rotational renumbering {perm} ({family})",
                   tol=_tol(sx, q1), key=f"C14:renumber:{cls.__name__}:{family}", info={"perm": perm})
    return "renumber"


def _motion(sx, kind, pts):
    if kind == "translate":
        t = sx.vec(sx.real("tx", -50, 50), sx.real("ty", -50, 50), sx.real("tz", -50, 50))
        return np.array([p + t for p in pts], dtype=pts.dtype)
    if kind == "rotate":
        o = sx.vec(1.5, -2.0, 0.5)
        theta, A = c09.make_rotation(sx, "a", o)
        return np.array([A.point(np.asarray(p)) for p in pts], dtype=pts.dtype)
    if kind == "scale":
        rho = sx.real("rho", 0.1, 100)
        return np.array([p * rho for p in pts], dtype=pts.dtype)
    raise KeyError(kind)


def run_motion(sx, dim, family, kind, neighbour=False, inplace=False):
    cls = HexCell if dim == 3 else QuadCell
    pts = hex_points(sx, family) if dim == 3 else quad_points(sx, family)
    n = len(pts)
    if neighbour:
        pts = np.concatenate((pts, pts + (pts[1] - pts[0])))
    old = _set_vsmall(0) if kind == "scale" else None
    try:
        grid = np.array(pts, dtype=pts.dtype)
        c1 = _cell(cls, grid, range(n))
        if neighbour:
            c1.add_neighbour(_cell(cls, grid, range(n, 2 * n)))
        q1 = _quality(c1)
        moved = _motion(sx, kind, pts)
        if inplace:
            # the same cell object, grid points moved in place (what the optimizer does)
            for i in range(len(grid)):
                grid[i] = moved[i]
            c2 = c1
        else:
            c2 = _cell(cls, moved, range(n))
            if neighbour:
                c2.add_neighbour(_cell(cls, moved, range(n, 2 * n)))
        q2 = _quality(c2)
    finally:
        if old is not None:
            _set_vsmall(old)
    if q1 is None or q2 is None:
        return "degenerate"
    sx.reach("motion")
    _axioms(sx)
    sx.prove_close(q2, q1, f"{cls.__name__} quality is unchanged by {kind} ({family}"
                   f"{', neighbour' if neighbour else ''}{', same cell object re-read' if inplace else ''})",
                   tol=_tol(sx, q1), key=f"C14:{kind}:{cls.__name__}:{family}{':inplace' if inplace else ''}")
    return "motion"


def run_stretch(sx):
    lam = sx.real("lam", 1, 50)
    old = _set_vsmall(0)
    try:
        qs = []
        for d in range(3):
            pts = []
            for k in CORNERS:
                p = [sx.const(x) for x in k]
                p[d] = p[d] * lam
                pts.append(p)
            qs.append(_quality(_cell(HexCell, sx.arr(pts), range(8))))
        cube = _quality(_cell(HexCell, sx.arr([[sx.const(x) for x in k] for k in CORNERS]), range(8)))
    finally:
        _set_vsmall(old)
    sx.reach("stretch")
    _axioms(sx)
    for d, q in enumerate(qs):
        sx.prove(q >= cube - sx.const(1e-12 if sx.sym else 1e-6), f"stretching the cube along direction {d} never lowers the quality value",
                 f"C14:stretch:monotone:{d}")
    sx.prove_close(qs[1], qs[0], "stretching along y raises the value as much as stretching along x", tol=_tol(sx, qs[0]),
                   key="C14:stretch:direction:y")
    sx.prove_close(qs[2], qs[0], "stretching along z raises the value as much as stretching along x", tol=_tol(sx, qs[0]),
                   key="C14:stretch:direction:z")
    # strictly rises for a real stretch
    if sx.sym:
        sx.prove(sx.implies(lam >= sx.const(1.5), qs[0] > cube), "a stretched cube has a strictly higher value",
                 "C14:stretch:strict")
    return "stretch"


def jobs(tier, seed):
    js = []

    def add(fn, name, **params):
        js.append({"name": name, "fn": fn, "params": params, "budget_s": 240 if tier == "quick" else 1500,
                   "timeout_ms": 20000 if tier == "quick" else 120000})

    rots = range(1, 24)
    fams = ["box", "sheared"] if tier == "quick" else ["box", "sheared", "frustum", "offset", "concrete"]
    for fam in fams:
        for r in (rots if fam == "box" or tier == "thorough" else (1, 5, 9, 14, 20)):
            add("run_renumber", f"renumber|hex|{fam}|rot={r}", dim=3, family=fam, rot=r)
    if tier == "quick":
        # twisted (non-planar) faces: one displaced corner with symbolic offsets, and a concrete irregular hexahedron
        for r in rots:
            add("run_renumber", f"renumber|hex|concrete|rot={r}", dim=3, family="concrete", rot=r)
        # ground twins only: the symbolic run of the 'offset' family does not finish (square roots of quartics in the three
        # offsets), and a rotated concrete cell feeds the uninterpreted arccos/power functions arguments that differ in the
        # 20th digit (no continuity axiom), so the solver could not decide either
        for r in (2, 7, 13, 22):
            add("run_renumber", f"renumber|hex|offset|rot={r}|ground twin only", dim=3, family="offset", rot=r)
            js[-1]["symbolic"] = False
        add("run_motion", "rotate|hex|concrete|ground twin only", dim=3, family="concrete", kind="rotate")
        js[-1]["symbolic"] = False
    add("run_renumber", "renumber|hex|concrete|rot=11|neighbour", dim=3, family="concrete", rot=11, neighbour=True)
    add("run_renumber", "renumber|hex|box|rot=7|neighbour", dim=3, family="box", rot=7, neighbour=True)
    for fam in ("rect", "sheared", "tapered"):
        for r in (1, 2, 3):
            add("run_renumber", f"renumber|quad|{fam}|rot={r}", dim=2, family=fam, rot=r)
    add("run_renumber", "renumber|quad|rect|rot=1|neighbour", dim=2, family="rect", rot=1, neighbour=True)
    for kind in ("translate", "rotate", "scale"):
        for fam in (["box", "sheared"] if tier == "quick" else ["box", "sheared", "frustum", "offset"]):
            add("run_motion", f"{kind}|hex|{fam}", dim=3, family=fam, kind=kind)
        add("run_motion", f"{kind}|hex|box|neighbour", dim=3, family="box", kind=kind, neighbour=True)
        add("run_motion", f"{kind}|quad|sheared", dim=2, family="sheared", kind=kind)
        add("run_motion", f"{kind}|quad|rect|neighbour", dim=2, family="rect", kind=kind, neighbour=True)
    for kind in ("translate", "rotate"):
        add("run_motion", f"{kind}|hex|sheared|inplace", dim=3, family="sheared", kind=kind, inplace=True)
        add("run_motion", f"{kind}|quad|sheared|neighbour|inplace", dim=2, family="sheared", kind=kind, neighbour=True, inplace=True)
    add("run_stretch", "stretch")
    return js
