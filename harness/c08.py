"""C08 - alternative arc specifications equal the analytic circle."""
import math
from fractions import Fraction

import numpy as np

import classy_blocks as cb
from classy_blocks.items.edges.factory import factory
from classy_blocks.items.vertex import Vertex

PROPERTY = "C08"
META = {
    "explanation": "Arc edges are created through the real edge factory between two vertices that the harness places on a "
                   "circle by construction (symbolic centre, symbolic in-plane coordinates x,y of the first point, i.e. "
                   "symbolic radius, pinned sector angles of either sign incl. reflex angles); z3 must show that the "
                   "written third point is the rotation of the first point by half the sector angle about the centre, "
                   "that the reported length equals radius*|angle| (three-point arcs: the arc through the given point), "
                   "and that no edge is shorter than its chord.",
    "bounds": {"centre": "free reals in [-10,10]^3", "radius": "sqrt(x^2+y^2), x,y in [-30,30], radius in [0.05, 40]",
               "sector angle": "pinned half-angles (cos,sin) in {(4/5,3/5),(3/5,4/5),(5/13,12/13),(-3/5,4/5),(4/5,-3/5),"
               "(-5/13,-12/13)}, i.e. 74, 106, 135, 254 (reflex), -74, -225 degrees", "axis": "(0,0,1), (1,2,2)/3 and the "
               "non-unit (2,4,4)", "spline/polyline": "<= 2 interior symbolic points"},
    "outside": ["flatness != 1 and non-equidistant origins (excluded by the statement)", "sector angles outside the pinned "
                "set", "chord bound for more than 2 interior points"],
    "assumptions": ["radius between 0.05 and 40", "ground instances of the triangle inequality of the Euclidean norm along "
                    "the intended point chain are given to the solver (chord bound of spline/polyLine edges)", "arccos of a concrete argument is evaluated numerically (1e-16)"],
    "must_reach": ["angle", "origin", "arc3", "chord"],
}

AXES = {
    "z": ((0, 0, 1), (1, 0, 0), (0, 1, 0)),
    # right-handed: u x v == n
    "122": ((Fraction(1, 3), Fraction(2, 3), Fraction(2, 3)), (Fraction(2, 3), Fraction(-2, 3), Fraction(1, 3)),
            (Fraction(2, 3), Fraction(1, 3), Fraction(-2, 3))),
}
HALF = {"5.73": (Fraction(1599, 1601), Fraction(80, 1601)), "74": (Fraction(4, 5), Fraction(3, 5)), "106": (Fraction(3, 5), Fraction(4, 5)),
        "135": (Fraction(5, 13), Fraction(12, 13)), "254": (Fraction(-3, 5), Fraction(4, 5)),
        "-74": (Fraction(4, 5), Fraction(-3, 5)), "-225": (Fraction(-5, 13), Fraction(-12, 13))}


def _frame(sx, axis):
    n, u, v = AXES[axis]
    conv = (lambda t: np.array([sx.const(a) for a in t], dtype=object if sx.sym else float))
    return conv(n), conv(u), conv(v)


def _setup(sx, axis, half):
    n, u, v = _frame(sx, axis)
    C = sx.vec(sx.real("cx", -10, 10), sx.real("cy", -10, 10), sx.real("cz", -10, 10))
    x, y = sx.real("x", -30, 30), sx.real("y", -30, 30)
    r2 = x * x + y * y
    sx.assume(sx.all([r2 >= sx.const(0.0025), r2 <= sx.const(1600)]), "radius between 0.05 and 40")
    c2, s2 = HALF[half]
    theta = sx.angle("theta", 2, c2, s2)     # cos(theta/2) = c2, sin(theta/2) = s2
    theta_val = 2 * math.atan2(float(s2), float(c2))

    def on_circle(k):
        """C + Rot(axis, k*theta/2)(p1 - C): in-plane coordinates rotate by the pinned angle"""
        ck, sk = _cs_multiple(c2, s2, k)
        ck, sk = sx.const(ck), sx.const(sk)
        return C + u * (x * ck - y * sk) + v * (x * sk + y * ck)
    return n, C, theta, theta_val, on_circle, r2


def _cs_multiple(c, s, k):
    rc, rs = Fraction(1), Fraction(0)
    for _ in range(abs(k)):
        rc, rs = rc * c - rs * s, rs * c + rc * s
    return (rc, -rs) if k < 0 else (rc, rs)


def _radius(sx, r2):
    if sx.sym:
        return r2.sqrt(nonneg=True)
    return math.sqrt(r2)


def _edge(p1, p2, data):
    return factory.create(Vertex(p1, 0), Vertex(p2, 1), data)


def run_angle(sx, axis, half, axis_scale=1):
    n, C, theta, theta_val, P, r2 = _setup(sx, axis, half)
    p1, p2 = P(0), P(2)
    edge = _edge(p1, p2, cb.Angle(theta, n * axis_scale))
    sx.reach("angle")
    third = edge.third_point.position
    sx.prove_vec_close(third, P(1), f"Angle edge ({half} deg): third point is the first point rotated by half the sector "
                       "angle about the centre", tol=1e-8, key=f"C08:angle:third-point:{'reflex' if abs(theta_val) > math.pi else 'minor'}")
    r = _radius(sx, r2)
    sx.prove_close(edge.length, r * abs(theta_val), f"Angle edge ({half} deg): length == radius * |angle|", tol=1e-7,
                   key=f"C08:angle:length:{'reflex' if abs(theta_val) > math.pi else 'minor'}")
    _chord(sx, edge, p1, p2, "angle")
    # the vertices are moved (as after assemble, or by an optimizer) to another chord of a concentric circle twice as large:
    # the arc is the one of the present vertex positions
    q1, q2 = C + (p1 - C) * 2, C + (p2 - C) * 2
    edge.vertex_1.move_to(q1)
    edge.vertex_2.move_to(q2)
    sx.prove_vec_close(edge.third_point.position, C + (P(1) - C) * 2, f"Angle edge ({half} deg) after its vertices moved: third "
                       "point follows the vertices", tol=1e-8, key="C08:angle:third-point:after-move")
    sx.prove_close(edge.length, r * 2 * abs(theta_val), f"Angle edge ({half} deg) after its vertices moved: length follows",
                   tol=1e-7, key="C08:angle:length:after-move")
    return "angle"


def run_angle_on_operation(sx, axis, half, face, slot):
    """the same sector-angle arc, declared on an edge of an operation's face (the closing edge 3 -> 0 included) and taken from
    the assembled mesh: it is the arc from the face's point `slot` to its next point"""
    n, C, theta, theta_val, P, r2 = _setup(sx, axis, half)
    p1, p2 = P(0), P(2)
    w = n * 3 + (p2 - p1) * 0 + sx.vec(0.3, -0.2, 0.1)
    quad = [None] * 4
    quad[slot], quad[(slot + 1) % 4] = p1, p2
    quad[(slot + 2) % 4], quad[(slot + 3) % 4] = p2 + w, p1 + w
    lift = n * 2 + sx.vec(0.1, 0.2, -0.1)
    other = [q + lift * (1 if face == "bottom" else -1) for q in quad]
    edges = [None] * 4
    edges[slot] = cb.Angle(theta, n)
    this, that = cb.Face(quad, edges), cb.Face(other)
    loft = cb.Loft(this, that) if face == "bottom" else cb.Loft(that, this)
    mesh = cb.Mesh()
    mesh.add(loft)
    mesh.assemble()
    sx.reach("angle")
    arcs = [e for e in mesh.edge_list.edges if e.kind == "angle"]
    sx.prove(len(arcs) == 1, f"Angle on {face} face edge {slot}: one arc edge in the assembled mesh", "C08:angle:on-operation:count",
             info={"edges": [e.kind for e in mesh.edge_list.edges]})
    if len(arcs) == 1:
        sx.prove_vec_close(arcs[0].third_point.position, P(1), f"Angle on {face} face edge {slot} ({half} deg): the arc taken "
                           "from the mesh is the declared sector (third point half-way, on the declared side)", tol=1e-8,
                           key=f"C08:angle:on-operation:{face}{slot}")
    return "angle"


def run_origin(sx, axis, half):
    n, C, theta, theta_val, P, r2 = _setup(sx, axis, half)
    p1, p2 = P(0), P(2)
    edge = _edge(p1, p2, cb.Origin(C))
    sx.reach("origin")
    # the origin specification describes the minor arc
    minor = abs(theta_val) < math.pi
    want = P(1) if minor else C - (P(1) - C)
    included = abs(theta_val) if minor else 2 * math.pi - abs(theta_val)
    sx.prove_vec_close(edge.third_point.position, want, f"Origin edge ({half} deg): third point is on the circle half-way "
                       "between the end points on the side of the chord", tol=1e-8, key="C08:origin:third-point")
    r = _radius(sx, r2)
    sx.prove_close(edge.length, r * included, f"Origin edge ({half} deg): length == radius * included angle", tol=1e-7,
                   key="C08:origin:length")
    _chord(sx, edge, p1, p2, "origin")
    q1, q2 = C + (p1 - C) * 2, C + (p2 - C) * 2
    edge.vertex_1.move_to(q1)
    edge.vertex_2.move_to(q2)
    sx.prove_vec_close(edge.third_point.position, C + (want - C) * 2, f"Origin edge ({half} deg) after its vertices moved: third "
                       "point follows the vertices", tol=1e-8, key="C08:origin:third-point:after-move")
    return "origin"


def run_arc3(sx, axis, half, where):
    """classic three-point arc; the given point at k*theta/2 from the first point"""
    n, C, theta, theta_val, P, r2 = _setup(sx, axis, half)
    p1, p2 = P(0), P(2)
    k = {"mid": 1, "opposite-start": -1, "beyond-end": 3, "near-end": None}[where]
    given = P(k)
    edge = _edge(p1, p2, cb.Arc(given))
    sx.reach("arc3")
    t = abs(theta_val) % (2 * math.pi)
    pos = (k * theta_val / 2) % (2 * math.pi)           # angular position of the given point, measured from p1
    end = theta_val % (2 * math.pi)                     # angular position of p2
    sweep = end if pos < end else 2 * math.pi - end     # the arc from p1 to p2 that passes through the given point
    r = _radius(sx, r2)
    cls = ("reflex-sector" if sweep > math.pi else "minor-sector") + ":" + \
          ("given-and-end-on-the-same-side-of-start" if math.sin(pos) * math.sin(end) > 0 else "given-and-end-on-opposite-sides")
    sx.prove_close(edge.length, r * sweep, f"three-point arc ({half} deg, given point {where}): length == radius * angle of "
                   "the arc through the given point", tol=1e-7, key=f"C08:arc3:length:{cls}",
                   info={"sector_deg": math.degrees(theta_val), "given_at_deg": math.degrees(pos), "expected_sweep_deg": math.degrees(sweep)})
    _chord(sx, edge, p1, p2, "arc3")
    return "arc3"


def _chord(sx, edge, p1, p2, kind):
    d = p2 - p1
    if sx.sym:
        from symx.shims import norm_model
        chord = norm_model(d)
    else:
        chord = float(np.linalg.norm(d))
    L = edge.length
    sx.reach("chord")
    sx.prove(L >= chord * sx.const(1 - 1e-9), f"{kind} edge: length >= distance between the end points", f"C08:chord:{kind}")


def run_polyline(sx, kind, npts):
    p1 = sx.vec(0, 0, 0)
    p2 = sx.vec(sx.real("ex", 0.5, 3), sx.real("ey", -1, 1), 0.25)
    pts = [sx.vec(sx.real(f"q{i}x", -2, 4), sx.real(f"q{i}y", -2, 2), sx.real(f"q{i}z", -1, 1)) for i in range(npts)]
    data = cb.Spline(pts) if kind == "spline" else cb.PolyLine(pts)
    edge = _edge(p1, p2, data)
    if sx.sym:
        # ground instances of the triangle inequality |a| + |b| >= |a + b| along the intended chain p1 q0 .. qn p2
        from symx.shims import norm_model
        chain = [p1, *pts, p2]
        for k in range(2, len(chain)):
            lhs = norm_model(chain[k - 1] - chain[0]) + norm_model(chain[k] - chain[k - 1])
            sx.ctx.add((lhs >= norm_model(chain[k] - chain[0])).e)
    _chord(sx, edge, p1, p2, kind)
    edge2 = _edge(p1, p2, cb.Project("geo"))
    _chord(sx, edge2, p1, p2, "project")
    return kind


def jobs(tier, seed):
    js = []
    halves = list(HALF) if tier == "thorough" else ["74", "135", "254", "-74", "-225"]
    for axis in AXES:
        for half in halves:
            js.append({"name": f"angle|axis={axis}|{half}", "fn": "run_angle", "params": {"axis": axis, "half": half}})
            if abs(float(half)) < 180:
                js.append({"name": f"origin|axis={axis}|{half}", "fn": "run_origin", "params": {"axis": axis, "half": half}})
            for where in ("mid", "opposite-start", "beyond-end"):
                if where == "beyond-end" and abs(float(half)) * 1.5 >= 360:
                    continue
                js.append({"name": f"arc3|axis={axis}|{half}|{where}", "fn": "run_arc3",
                           "params": {"axis": axis, "half": half, "where": where}})
    for face, slot in (("bottom", 3), ("top", 3), ("top", 1), ("bottom", 0)):
        for half in ("74", "-74") if tier == "quick" else ("74", "-74", "135", "254"):
            js.append({"name": f"angle|on operation|{face} edge {slot}|{half}", "fn": "run_angle_on_operation",
                       "params": {"axis": "122", "half": half, "face": face, "slot": slot}})
    # a small sector (5.73 deg) down to radius 0.05: a proper arc close to, but outside, the collinearity cut-off
    a0 = list(AXES)[-1]
    for fn in (("angle", "origin") if tier == "quick" else ()):
        js.append({"name": f"{fn}|axis={a0}|5.73", "fn": f"run_{fn}", "params": {"axis": a0, "half": "5.73"}})
    if tier == "quick":
        js.append({"name": f"arc3|axis={a0}|5.73|mid", "fn": "run_arc3", "params": {"axis": a0, "half": "5.73", "where": "mid"}})
    js.append({"name": "angle|axis=122 non-unit x2|106", "fn": "run_angle", "params": {"axis": "122", "half": "106", "axis_scale": 6}})
    for kind in ("spline", "polyline"):
        for n in (2, 3):
            js.append({"name": f"chord|{kind}|{n}", "fn": "run_polyline", "params": {"kind": kind, "npts": n}})
    for j in js:
        j["budget_s"] = 200 if tier == "quick" else 1200
        j["timeout_ms"] = 20000 if tier == "quick" else 90000
    return js
