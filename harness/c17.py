"""C17 - clamps stay on their manifold and links keep their relation."""
from fractions import Fraction

import numpy as np

import classy_blocks as cb
from classy_blocks.optimize.clamps.clamp import ClampBase
from classy_blocks.optimize.clamps.surface import ParametricSurfaceClamp

from . import c09

PROPERTY = "C17"
META = {
    "explanation": "Clamps are constructed with symbolic positions/directions/normals/origins (non-unit, non-zero) and "
                   "updated to arbitrary symbolic parameters; z3 must show that the resulting position lies on the "
                   "declared line / plane / circle (same radius and height about the axis) / curve / surface. Links are "
                   "constructed, their leader is moved (arbitrary displacement; for rotation links a pinned rotation "
                   "about the link axis) and updated once or twice; z3 must show the follower relation and that the "
                   "leader array is untouched.",
    "bounds": {"positions/directions": "free reals in [-3,3]; plane normal: k*(1,2,2) with symbolic k, or pinned with a symbolic random vector (thorough: fully symbolic normal)", "parameters": "free reals (within the clamp's bounds)",
               "radial clamp axis": "pinned non-unit (1,2,2)*k or (0,0,2)", "rotation link": "axis (1,2,2) non-unit, leader "
               "moved by pinned rotations (3/5,4/5) then (-7/25,24/25)", "updates per link": "<= 2"},
    "outside": ["clause 1 of the statement: a freshly created clamp reports (the closest point to) its creation position - "
                "that is a statement about scipy's numerical minimiser, which is replaced by its contract",
                "CurveClamp on spline/analytic curves other than LineCurve and DiscreteCurve"],
    "assumptions": ["ClampBase.get_params (scipy.optimize.minimize) returns parameters whose point is the creation position "
                    "(the harness creates clamps at positions on the manifold)", "np.random.random(3) returns an arbitrary "
                    "vector in [0,1)^3"],
    "must_reach": ["clamp", "link"],
}

_dot, _cross = c09._dot, c09._cross


def install_conc():
    install()


def install():
    from symx import stubs_opt
    import classy_blocks.optimize.clamps.surface as SF
    from symx import api

    META.setdefault("stubs", []).append(stubs_opt.install_clamp_init_model())

    class _Rnd:
        @staticmethod
        def random(n):
            sx = api.CUR
            if _RAND["fixed"] is not None and sx is not None:
                return sx.vec(*_RAND["fixed"])
            if sx is None or not sx.sym:
                return np.random.random(n)
            return sx.vec(*[sx.real(f"rand{i}", 0, Fraction(999, 1000)) for i in range(n)])

    class _Np:
        random = _Rnd()

        def __getattr__(self, name):
            return getattr(np, name)

    SF.np = _Np()
    META["stubs"].append("optimize.clamps.surface: np.random.random(3) -> arbitrary vector in [0,1)^3")


def _v(sx, name, lo=-3, hi=3):
    return sx.vec(*[sx.real(f"{name}{i}", lo, hi) for i in range(3)])


def run_line(sx):
    p1, d = _v(sx, "p"), _v(sx, "d")
    sx.assume(_dot(d, d) >= sx.const(0.01), "direction not (near) zero")
    p2 = p1 + d
    s = sx.real("s", 0, 1)
    pos0 = p1 + d * s
    try:
        clamp = cb.LineClamp(pos0, p1, p2)
    except ZeroDivisionError:
        return "degenerate"
    # documented: "parameter t goes from 0 at point_1 to <d> at point_2 where <d> is the distance between the two points"
    if sx.sym:
        from symx.shims import norm_model
        dist = norm_model(d)
    else:
        dist = float(np.linalg.norm(d))
    b = clamp.bounds
    sx.prove(len(b) == 1 and len(b[0]) == 2 and sx.all([sx.close(b[0][0], 0, 1e-12), sx.close(b[0][1], dist, 1e-9)]),
             "LineClamp without explicit bounds: the parameter is bounded by 0 (point_1) and the distance to point_2",
             "C17:line:default-bounds", info={"bounds": str(b)})
    t = sx.real("t", -5, 5)
    clamp.update_params([t])
    sx.reach("clamp")
    cr = _cross(clamp.position - p1, d)
    sx.prove(sx.all([sx.close(c, 0, 1e-9) for c in cr]), "LineClamp position lies on the line through point_1 and point_2",
             "C17:line:on-manifold")
    return "line"


_RAND = {"fixed": None}


def run_plane(sx, mode="sym-normal", off_plane=False):
    point = _v(sx, "q")
    if mode == "sym-normal":
        n = _v(sx, "n")
        sx.assume(_dot(n, n) >= sx.const(0.01), "normal not (near) zero")
        _RAND["fixed"] = [0.3, 0.6, 0.1]      # the random vector is pinned in this job
    elif mode == "scaled-normal":
        n = sx.vec(1, 2, 2) * sx.real("k", 0.01, 100)   # non-unit normal of symbolic length
        _RAND["fixed"] = [0.3, 0.6, 0.1]
    else:
        n = sx.vec(1.5, 3.0, 3.0)
        _RAND["fixed"] = None                 # the random vector is symbolic in this job
    from symx import stubs_opt
    try:
        if off_plane:
            # created at a position that is not on the declared plane: whatever parameters the initial minimisation
            # returns (here: arbitrary ones), the clamp moves in the DECLARED plane
            stubs_opt.CLAMP_INIT_MODE["mode"] = "any"
            clamp = cb.PlaneClamp(_v(sx, "x"), point, n)
        else:
            # creation position = the plane point itself (on the manifold)
            clamp = cb.PlaneClamp(point, point, n)
    except ZeroDivisionError:
        sx.reach("degenerate-basis")
        return "degenerate-basis"
    finally:
        stubs_opt.CLAMP_INIT_MODE["mode"] = "root"
    if off_plane:
        sx.reach("clamp")
        sx.prove_close(_dot(clamp.position - point, n), 0, "PlaneClamp created off the plane: its position (for whatever initial "
                       "parameters) lies in the declared plane", key="C17:plane:on-manifold:created-off-plane")
    a, b = sx.real("a", -5, 5), sx.real("b", -5, 5)
    clamp.update_params([a, b])
    sx.reach("clamp")
    sx.prove_close(_dot(clamp.position - point, n), 0, "PlaneClamp position lies in the plane (for every random basis)",
                   key="C17:plane:on-manifold")
    return "plane"


def run_radial(sx, axis):
    center = _v(sx, "c")
    normal = sx.vec(*axis)
    pos0 = _v(sx, "x")
    r0 = pos0 - center
    nn = _dot(normal, normal)
    h0n = _dot(r0, normal)                       # height * |n|
    rad2 = _dot(r0, r0) - h0n * h0n / nn          # squared distance from the axis
    sx.assume(rad2 >= sx.const(0.01), "creation position is off the axis")
    try:
        clamp = cb.RadialClamp(pos0, center, normal)
    except ZeroDivisionError:
        return "degenerate"
    t = sx.real("t", -10, 10)
    clamp.update_params([t])
    sx.reach("clamp")
    r1 = clamp.position - center
    h1n = _dot(r1, normal)
    sx.prove_close(h1n, h0n, "RadialClamp keeps the height along the axis", key="C17:radial:height")
    sx.prove_close(_dot(r1, r1) - h1n * h1n / nn, rad2, "RadialClamp keeps the distance from the axis (squared)",
                   tol=1e-8, key="C17:radial:radius")
    return "radial"


def run_curve(sx, kind):
    p = [_v(sx, "a"), _v(sx, "b"), _v(sx, "c")]
    if kind == "line":
        curve = cb.LineCurve(p[0], p[1], (sx.const(-1), sx.const(2)) if False else (-1, 2))
        t0 = sx.real("t0", -1, 2)
        clamp = cb.CurveClamp(curve.get_point(t0), curve, initial_param=t0)
        t = sx.real("t", -1, 2)
        clamp.update_params([t])
        sx.reach("clamp")
        sx.prove_vec_close(clamp.position, p[0] + (p[1] - p[0]) * t, "CurveClamp(LineCurve) position == curve point(t)",
                           key="C17:curve-line:on-manifold")
    else:
        curve = cb.DiscreteCurve(p)
        i0 = sx.choice("i0", 3)
        clamp = cb.CurveClamp(p[i0], curve, initial_param=i0)
        i = sx.choice("i", 3)
        clamp.update_params([i])
        sx.reach("clamp")
        sx.prove_vec_close(clamp.position, p[i], "CurveClamp(DiscreteCurve) position == curve point(i)",
                           key="C17:curve-discrete:on-manifold")
    return f"curve-{kind}"


def run_curve_fresh(sx):
    """ground twin only (the real minimisers run): a clamp created on an analytic curve - S-shaped, several local minima of
    the distance, parameter range not starting at 0 - without an initial parameter reports the position it was created at"""
    def s_curve(t):
        return np.array([t, t * t * t - 3 * t, 0.2 * t])
    sx.reach("clamp")
    bad = []
    for lo, hi in ((-2.0, 2.0), (1.0, 3.0), (-3.0, -0.5)):
        curve = cb.AnalyticCurve(s_curve, (lo, hi))
        for k in range(1, 12):
            t0 = lo + (hi - lo) * k / 12
            pos = s_curve(t0)
            clamp = cb.CurveClamp(pos, curve)
            d = float(np.linalg.norm(np.asarray(clamp.position, dtype=float) - pos))
            if d > 1e-4:
                bad.append(((lo, hi), round(t0, 3), round(d, 4), [round(float(x), 4) for x in clamp.params]))
    sx.prove(not bad, "CurveClamp created on an analytic curve without an initial parameter reports its creation position",
             "C17:curve-analytic:fresh-position", info={"failures": bad[:4], "count": len(bad)})
    return "curve-analytic"


def run_surface(sx):
    def surf(params):
        u, v = params[0], params[1]
        return np.array([u, v, u * u - v * u + 0.5 * v], dtype=object if sx.sym else float)
    u0, v0 = sx.real("u0", -2, 2), sx.real("v0", -2, 2)
    clamp = ParametricSurfaceClamp(surf([u0, v0]), surf, [[-2, 2], [-2, 2]])
    u, v = sx.real("u", -2, 2), sx.real("v", -2, 2)
    clamp.update_params([u, v])
    sx.reach("clamp")
    sx.prove_vec_close(clamp.position, surf([u, v]), "ParametricSurfaceClamp position == surface(u, v)",
                       key="C17:surface:on-manifold")
    fc = cb.FreeClamp(_v(sx, "f"))
    w = _v(sx, "w")
    fc.update_params(w)
    sx.prove_vec_close(fc.position, w, "FreeClamp position == parameters", key="C17:free:on-manifold")
    return "surface"


def _leader_untouched(sx, link, leader_before, what):
    sx.prove_vec_close(link.leader, leader_before, f"{what}: update() does not alter the leader", key=f"C17:{what}:leader-mutated")


def run_translation(sx):
    l0, f0 = _v(sx, "l"), _v(sx, "f")
    link = cb.TranslationLink(l0, f0)
    for k in (1, 2):
        l1 = _v(sx, f"m{k}", -10, 10)
        link.leader = np.array(l1, dtype=l1.dtype)
        link.update()
        sx.reach("link")
        sx.prove_vec_close(link.follower, l1 + (f0 - l0), f"TranslationLink (move {k}): follower == leader + original offset",
                           key="C17:translation:relation")
        _leader_untouched(sx, link, l1, "translation")
    return "translation"


def run_symmetry(sx):
    l0 = _v(sx, "l")
    n, o = _v(sx, "n"), _v(sx, "o")
    sx.assume(_dot(n, n) >= sx.const(0.01), "normal not (near) zero")
    A = c09.make_mirror(sx, n, o)
    link = cb.SymmetryLink(l0, A.point(l0), n, o)
    _leader_untouched(sx, link, l0, "symmetry-init")
    for k in (1, 2):
        l1 = _v(sx, f"m{k}", -10, 10)
        link.leader = np.array(l1, dtype=l1.dtype)
        link.update()
        sx.reach("link")
        sx.prove_vec_close(link.follower, A.point(l1), f"SymmetryLink (move {k}): follower == mirror image of the leader",
                           key="C17:symmetry:relation")
        _leader_untouched(sx, link, l1, "symmetry")
    return "symmetry"


def run_rotation(sx, moves=("a",)):
    o = _v(sx, "o")
    l0, f0 = _v(sx, "l"), _v(sx, "f")
    axis = sx.vec(*c09.AXIS)
    r0 = l0 - o
    rad2 = _dot(r0, r0) - _dot(r0, axis) * _dot(r0, axis) / sx.const(9)
    sx.assume(rad2 >= sx.const(0.01), "leader is off the rotation axis")
    try:
        link = cb.RotationLink(l0, f0, axis, o)
    except ZeroDivisionError:
        return "degenerate"
    lcur, fwant = l0, f0
    for k, pin in enumerate(moves):
        theta, A = c09.make_rotation(sx, pin, o)
        lcur = A.point(lcur)
        fwant = A.point(fwant)
        link.leader = np.array(lcur, dtype=lcur.dtype)
        try:
            link.update()
        except ZeroDivisionError:
            return "degenerate"
        sx.reach("link")
        sx.prove_vec_close(link.follower, fwant, f"RotationLink (move {k + 1}): follower == original follower rotated "
                           "by the angle the leader turned", tol=1e-7, key="C17:rotation:relation")
        _leader_untouched(sx, link, lcur, "rotation")
    return "rotation"


def jobs(tier, seed):
    js = [
        {"name": "line", "fn": "run_line"},
        {"name": "plane:normal=k*(1,2,2),pinned-random", "fn": "run_plane", "params": {"mode": "scaled-normal"}},
        {"name": "plane:pinned-normal,symbolic-random", "fn": "run_plane", "params": {"mode": "sym-random"}},
        {"name": "plane:created off the plane", "fn": "run_plane", "params": {"mode": "scaled-normal", "off_plane": True}},
        {"name": "radial:axis=(0,0,2)", "fn": "run_radial", "params": {"axis": [0, 0, 2]}},
        {"name": "radial:axis=(1.5,3,3)", "fn": "run_radial", "params": {"axis": [1.5, 3, 3]}},
        {"name": "curve:line", "fn": "run_curve", "params": {"kind": "line"}},
        {"name": "curve:discrete", "fn": "run_curve", "params": {"kind": "discrete"}},
        {"name": "curve:analytic, fresh clamp|ground twin only", "fn": "run_curve_fresh", "symbolic": False},
        {"name": "surface+free", "fn": "run_surface"},
        {"name": "translation", "fn": "run_translation"},
        {"name": "symmetry", "fn": "run_symmetry"},
        {"name": "rotation:1-move", "fn": "run_rotation", "params": {"moves": ["a"]}},
        {"name": "rotation:2-moves", "fn": "run_rotation", "params": {"moves": ["a", "b"]}},
    ]
    if tier == "thorough":
        js.append({"name": "plane:symbolic-normal,pinned-random", "fn": "run_plane", "params": {"mode": "sym-normal"}})
        js.append({"name": "rotation:3-moves", "fn": "run_rotation", "params": {"moves": ["a", "b", "a"]}})
    for j in js:
        j["budget_s"] = 240 if tier == "quick" else 1500
        j["timeout_ms"] = 30000 if tier == "quick" else 120000
    return js
