"""C02 - grading propagation terminates, completes and is order-independent."""
import itertools

import z3

from . import c01, g1

PROPERTY = "C02"
META = {
    "choice_sets": True,
    "explanation": "Same symbolic run as C01 (symbolic chop flags and counts, solver-chosen iteration order of every "
                   "neighbour/coincident set) judged against an independent union-find over vertex indices: families "
                   "without a chop must end in the undefined-grading error, families whose chops agree must end in "
                   "success with every direction carrying its family's count, the propagation loop must stay under its "
                   "unwinding bound, the real Mesh.write() - through which every run grades - must leave the file it was "
                   "pointed at untouched when it fails and complete when it succeeds, and two schedules of the same input must not end differently (cross-path query).",
    "bounds": c01.META["bounds"],
    "outside": c01.META["outside"] + ["iteration order of the set of undefined block numbers (small ints: CPython "
                                        "iterates them in value order deterministically)"],
    "assumptions": c01.META["assumptions"],
    "must_reach": ["ok", "undefined", "inconsistent"],
}

install = c01.install
install_conc = c01.install


def run(sx, topo, order, rots, spec, force=None, regrade=False):
    cells = g1.TOPOLOGIES[topo]
    mesh, blocks = g1.build_mesh(cells, order, rots)
    chops = g1.place_chops(sx, blocks, c01._spec(spec))
    outcome = g1.grade(mesh, len(cells), via_write=True)
    sx.reach(outcome if not outcome.startswith("crash") else "crash")
    if outcome.startswith("crash"):
        sx.prove(False, "grading a mesh either succeeds or fails with the undefined-/inconsistent-grading error, not with "
                 + outcome[6:], f"%s:crash:{topo}" % PROPERTY, info={"exception": outcome[6:]})
        return outcome
    lw = dict(g1.LAST_WRITE)
    if outcome == "ok":
        sx.prove(lw["complete"], "a successful write() leaves a complete dictionary (all sections, one hex per block)",
                 "C02:write:complete", info=lw)
    elif outcome != "nonterm":
        sx.prove(lw["untouched"], "a write() that fails for lack of (or conflict between) gradings writes nothing: the file "
                 "that was there before is untouched, no partial dictionary", f"C02:write:partial:{outcome}", info=lw)
    fams = g1.families(blocks)
    fam_chops = []
    for f in fams:
        fam_chops.append([(d, chops[d]) for d in f if d in chops])
    complete = all(fc for fc in fam_chops)
    tag = topo
    counts = None
    if not complete:
        sx.prove(outcome == "undefined",
                 "a family of block directions without any chop ends in the undefined-grading error",
                 f"C02:missing-chop:{outcome}:{tag}", info={"outcome": outcome})
    else:
        conflicts = []
        for fc in fam_chops:
            for (d1, n1), (d2, n2) in itertools.combinations(fc, 2):
                conflicts.append(n1 != n2)
        if outcome == "nonterm":
            sx.prove(False, "propagation terminates (loop bound 4*(3*blocks)^2 copy steps exceeded)",
                     f"C02:livelock:{tag}", info={"chopped": [list(d) for d in sorted(chops)]})
        elif outcome == "undefined":
            sx.prove(False, "every family has a chop, yet writing fails with the undefined-grading error",
                     f"C02:undefined-despite-chops:{tag}", info={"chopped": [list(d) for d in sorted(chops)]})
        elif outcome == "inconsistent":
            sx.prove(sx.any(conflicts), "the inconsistent-grading error is raised only if two chops of a family differ",
                     f"C02:spurious-inconsistent:{tag}", info={"chopped": [list(d) for d in sorted(chops)]})
        else:
            conds = []
            for f, fc in zip(fams, fam_chops):
                for (i, ax) in f:
                    conds.append(blocks[i].axes[ax].count == fc[0][1])
            sx.prove(sx.any(conflicts + [sx.all(conds)]),
                     "if the chops of every family agree, every block direction gets the count of its family's chop",
                     f"C02:count-not-from-chop:{tag}")
    if outcome == "ok":
        counts = {f"{i},{ax}": blocks[i].axes[ax].count for i in blocks for ax in range(3)}
    if outcome == "ok" and regrade:
        # the counts are a function of the chops: writing the same mesh once more derives the same counts from them
        again = g1.grade(mesh, len(cells), via_write=True)
        sx.prove(again == "ok", "writing the same mesh a second time ends like the first time", f"C02:regrade:outcome:{tag}",
                 info={"second": again})
        if again == "ok":
            sx.prove(sx.all([blocks[i].axes[ax].count == counts[f"{i},{ax}"] for i in blocks for ax in range(3)]),
                     "the second write derives the same count for every block direction", f"C02:regrade:counts:{tag}")
    if sx.sym:
        sx.keep = {"outcome": outcome, "counts": counts, "flags": tuple(sorted(chops)), "topo": topo}
    elif force is not None:
        # determinism replay: `force` = [outcome of the other schedule, its counts]
        same = outcome == force[0]
        if same and outcome == "ok":
            same = all(int(counts[k]) == int(v) for k, v in force[1].items())
        sx.note("this_schedule", [outcome, {k: int(v) for k, v in (counts or {}).items()}])
        sx.note("other_schedule", force)
        sx.prove(same, "two iteration orders of the same input end the same way", f"C02:schedule-dependent:{topo}")
    return outcome


def _nonsched(cons):
    return [c for c, vs in cons if not any(v.startswith("sched:") for v in vs)]


def post_job(job, kept, out):
    """determinism across schedules: two explored paths with the same chop flags but different schedule picks must not
    end differently for any common count assignment (solver query on the conjunction of both count constraints)"""
    from symx import core as _core

    def zexpr(rec, v):
        if not hasattr(v, "z"):
            return z3.RealVal(int(v))
        _core.Ctx.cur = rec["ctx"]
        try:
            return v.z()
        finally:
            _core.Ctx.cur = None

    groups = {}
    budget = {"pairs": 40000}        # pairwise schedule comparisons per job (the rest is reported as skipped)
    for rec in kept:
        groups.setdefault(rec["keep"]["flags"], []).append(rec)
    key = f"C02:schedule-dependent:{job['params']['topo']}"
    reported = 0
    for flags, recs in groups.items():
        pairs = list(itertools.combinations(recs, 2))
        if budget["pairs"] <= 0:
            out["x_determinism_pairs_skipped"] = out.get("x_determinism_pairs_skipped", 0) + len(pairs)
            continue
        if len(pairs) > budget["pairs"]:
            out["x_determinism_pairs_skipped"] = out.get("x_determinism_pairs_skipped", 0) + len(pairs) - budget["pairs"]
            pairs = pairs[:budget["pairs"]]
        budget["pairs"] -= len(pairs)
        for a, b in pairs:
            ka, kb = a["keep"], b["keep"]
            if ka["outcome"] == kb["outcome"] and ka["outcome"] != "ok":
                continue
            s = z3.Solver()
            s.set("timeout", 20000)
            s.add(*_nonsched(a["cons"]))
            s.add(*_nonsched(b["cons"]))
            if ka["outcome"] == kb["outcome"] == "ok":
                diffs = []
                for k in ka["counts"]:
                    e = z3.simplify(zexpr(a, ka["counts"][k]) != zexpr(b, kb["counts"][k]))
                    if z3.is_false(e):
                        continue
                    diffs.append(e)
                if not diffs:
                    out["obligations"] += 1
                    out["syntactic"] += 1
                    continue
                s.add(z3.Or(*diffs))
            out["obligations"] += 1
            r = str(s.check())
            if r == "unsat":
                out["discharged"] += 1
            elif r == "unknown":
                out["inconclusive"] += 1
            else:
                m = {}
                a["ctx"]._read_model(s.model(), m)
                # schedule of path a from its own model; path b's outcome is recorded as the expectation
                sa = z3.Solver()
                sa.add(*[c for c, _ in a["cons"]])
                for n, v in m.items():
                    if n.startswith("n_"):
                        sa.add(z3.Int(n) == v)
                sb = z3.Solver()
                sb.add(*[c for c, _ in b["cons"]])
                for n, v in m.items():
                    if n.startswith("n_"):
                        sb.add(z3.Int(n) == v)
                if str(sa.check()) != "sat" or str(sb.check()) != "sat":
                    out["inconclusive"] += 1
                    continue
                ma, mb = {}, {}
                a["ctx"]._read_model(sa.model(), ma)
                b["ctx"]._read_model(sb.model(), mb)
                from symx.runner import _jsonable

                def cnts(rec, model):
                    if rec["keep"]["counts"] is None:
                        return None
                    res = {}
                    mod = sb.model() if rec is b else sa.model()
                    for k, v in rec["keep"]["counts"].items():
                        e = zexpr(rec, v)
                        res[k] = int(str(mod.eval(e, model_completion=True)).split("/")[0].split(".")[0])
                    return res
                params = dict(job["params"])
                params["force"] = [kb["outcome"], cnts(b, mb)]
                if reported < 3:
                    out["violated"].append({
                        "label": "two iteration orders of the same input end the same way", "key": key,
                        "info": {"schedule_a": ka["outcome"], "schedule_b": kb["outcome"],
                                 "model_b": _jsonable(mb)},
                        "model": _jsonable(ma), "smt": None, "decisions": a["forks"], "params": params})
                reported += 1
    out["nondeterministic_pairs"] = reported


def jobs(tier, seed):
    js = []
    for j in c01.jobs(tier, seed):
        js.append(j)          # C01's graded-twice variants included: the counts of the second write are derived from the same chops
    return js
