"""A small blockMeshDict reader written for the harness (independent of the library's writers).

Numbers may be literal floats/ints or engine tokens of the form «n» (symbolic values formatted by the real writer);
`num()` maps both to values."""
import re


class ParseError(Exception):
    pass


_TOKEN = re.compile(r"«(\d+)»")


def num(sx, tok):
    m = _TOKEN.fullmatch(tok)
    if m:
        return sx.ctx.tokens[int(m.group(1))]
    try:
        return int(tok)
    except ValueError:
        return float(tok)


def _strip_comments(text):
    """removes // comments but keeps them available per line (the writer puts alternative arc specs in comments)"""
    lines = []
    for ln in text.split("\n"):
        i = ln.find("//")
        lines.append(ln if i < 0 else ln[:i])
    return "\n".join(lines)


def _section(text, name, open_c, close_c):
    """body of `name ( ... );` or `name { ... }` at top level, None if absent"""
    m = re.search(r"(?m)^" + re.escape(name) + r"\s*\n?\s*" + re.escape(open_c), text)
    if not m:
        return None
    depth, i = 1, m.end()
    start = i
    while i < len(text):
        c = text[i]
        if c == open_c:
            depth += 1
        elif c == close_c:
            depth -= 1
            if depth == 0:
                return text[start:i]
        i += 1
    raise ParseError(f"unterminated section {name}")


def _vec(sx, s):
    parts = s.strip().strip("()").split()
    return [num(sx, p) for p in parts]


def parse(sx, text):
    """-> dict with header settings, geometry, vertices, blocks, edges, faces, boundary, default, merged"""
    out = {}
    if "FoamFile" not in text or "blockMeshDict" not in text:
        raise ParseError("no FoamFile header")
    raw = text
    text = _strip_comments(text)
    # settings: `key value;` lines between header and first section
    body_start = text.find("}", text.find("FoamFile")) + 1
    first = min([i for i in (text.find("\ngeometry"), text.find("\nvertices")) if i >= 0])
    out["settings"] = {}
    for ln in text[body_start:first].split("\n"):
        ln = ln.strip()
        if ln.endswith(";"):
            k, _, v = ln[:-1].partition(" ")
            out["settings"][k] = v.strip()
    # geometry
    geo = _section(text, "geometry", "{", "}")
    out["geometry"] = {}
    if geo is not None:
        for m in re.finditer(r"(\S+)\s*\{([^}]*)\}", geo):
            out["geometry"][m.group(1)] = [p.strip() for p in m.group(2).split(";") if p.strip()]
    # vertices
    vs = _section(text, "vertices", "(", ")")
    if vs is None:
        raise ParseError("no vertices")
    out["vertices"] = []
    for ln in vs.split("\n"):
        ln = ln.strip()
        if not ln:
            continue
        m = re.fullmatch(r"(project\s+)?\(([^)]*)\)\s*(\(([^)]*)\))?", ln)
        if not m:
            raise ParseError(f"vertex line {ln!r}")
        out["vertices"].append({"pos": _vec(sx, m.group(2)), "project": (m.group(4) or "").split()})
    # blocks
    bs = _section(text, "blocks", "(", ")")
    out["blocks"] = []
    for ln in (bs or "").split("\n"):
        ln = ln.strip()
        if not ln:
            continue
        m = re.fullmatch(r"hex \(([^)]*)\)\s*(\S*)\s*\(([^)]*)\)\s*(simpleGrading|edgeGrading)\s*\((.*)\)", ln)
        if not m:
            raise ParseError(f"hex line {ln!r}")
        out["blocks"].append({"indexes": [int(x) for x in m.group(1).split()], "zone": m.group(2),
                              "counts": [num(sx, x) for x in m.group(3).split()], "grading_kind": m.group(4),
                              "grading": m.group(5).strip()})
    # edges
    es = _section(text, "edges", "(", ")")
    out["edges"] = []
    for ln in (es or "").split("\n"):
        ln = ln.strip()
        if not ln:
            continue
        m = re.fullmatch(r"(\S+) (\d+) (\d+) (.*)", ln)
        if not m:
            raise ParseError(f"edge line {ln!r}")
        kind, v1, v2, data = m.group(1), int(m.group(2)), int(m.group(3)), m.group(4).strip()
        if kind == "arc":
            val = _vec(sx, data)
        elif kind in ("spline", "polyLine"):
            inner = data[1:-1].strip()
            val = [_vec(sx, p) for p in re.findall(r"\(([^()]*)\)", inner)]
        elif kind == "project":
            val = data.strip("()").split()
        else:
            raise ParseError(f"edge kind {kind}")
        out["edges"].append({"kind": kind, "v1": v1, "v2": v2, "data": val})
    # alternative arc specifications written as comments
    out["edge_comments"] = re.findall(r"// arc (\d+) (\d+) (.*)", raw)
    # faces
    fs = _section(text, "faces", "(", ")")
    out["faces"] = []
    for ln in (fs or "").split("\n"):
        ln = ln.strip()
        if not ln:
            continue
        m = re.fullmatch(r"project \(([^)]*)\) (\S+)", ln)
        if not m:
            raise ParseError(f"face line {ln!r}")
        out["faces"].append({"quad": [int(x) for x in m.group(1).split()], "geometry": m.group(2)})
    # boundary
    bd = _section(text, "boundary", "(", ")")
    out["boundary"] = {}
    out["boundary_order"] = []
    if bd is None:
        raise ParseError("no boundary")
    pos = 0
    while True:
        m = re.compile(r"\s*(\S+)\s*\{").match(bd, pos)
        if not m:
            if bd[pos:].strip():
                raise ParseError(f"boundary rest {bd[pos:]!r}")
            break
        name = m.group(1)
        depth, i = 1, m.end()
        while depth:
            if bd[i] == "{":
                depth += 1
            elif bd[i] == "}":
                depth -= 1
            i += 1
        body = bd[m.end():i - 1]
        fm = re.search(r"faces\s*\(((?:[^()]|\([^()]*\))*)\)\s*;", body)
        if not fm:
            raise ParseError(f"patch {name} without faces")
        quads = [[int(x) for x in q.split()] for q in re.findall(r"\(([^()]*)\)", fm.group(1))]
        rest = body[:fm.start()] + body[fm.end():]
        entries = [e.strip() for e in rest.split(";") if e.strip()]
        ptype = None
        settings = []
        for e in entries:
            if e.startswith("type ") and ptype is None:
                ptype = e[5:].strip()
            else:
                settings.append(e)
        if name in out["boundary"]:
            raise ParseError(f"patch {name} listed twice")
        out["boundary"][name] = {"type": ptype, "settings": settings, "faces": quads}
        out["boundary_order"].append(name)
        pos = i
    dp = _section(text, "defaultPatch", "{", "}")
    out["default"] = None
    if dp is not None:
        d = dict(e.strip().split(None, 1) for e in dp.split(";") if e.strip())
        out["default"] = {"name": d.get("name"), "type": d.get("type")}
    mp = _section(text, "mergePatchPairs", "(", ")")
    out["merged"] = [p.split() for p in re.findall(r"\(([^()]*)\)", mp or "")]
    return out


def parse_vtk(text, sx=None):
    lines = [ln.strip() for ln in text.split("\n")]
    i = next(k for k, ln in enumerate(lines) if ln.startswith("POINTS"))
    n = int(lines[i].split()[1])
    pts = [[num(sx, x) for x in lines[i + 1 + k].split()] for k in range(n)]
    j = next(k for k, ln in enumerate(lines) if ln.startswith("CELLS"))
    nc = int(lines[j].split()[1])
    cells = [[int(x) for x in lines[j + 1 + k].split()][1:] for k in range(nc)]
    return {"points": pts, "cells": cells}
