"""C03 - cell count and expansion ratio obey the geometric-progression law."""
from fractions import Fraction

import z3

from classy_blocks.grading.chop import Chop
from classy_blocks.grading.grading import Grading

PROPERTY = "C03"
TOL = 1e-7
META = {
    "explanation": "Chop.calculate(length) (the closure loop over the twelve relations) runs on symbolic length, sizes and "
                   "ratios. Where the count is given it is a concrete n (powers c**n are polynomials), where it is derived "
                   "it is a symbolic integer n = int(x)+1 with log and b**x as uninterpreted functions constrained by "
                   "ground instances of their laws; scipy's brentq is replaced by its contract (sign change required, "
                   "result is a root in the bracket). The oracle is blockMesh's law written in the harness: n cells "
                   "s0*r^i, sum == length, total == r^(n-1); z3 must show that the returned (count, total expansion) "
                   "reproduces what was given, that counts are >= 1 and expansions positive, that reversing a chop gives "
                   "the same count and the reciprocal expansion, and that unrealisable parameters are rejected.",
    "bounds": {"length": "[1e-3, 1e3]", "sizes": "[1e-4*L, L]", "ratios": "[0.5, 2]: [0.5, 1-1.1e-7], [1-0.9e-7, 1+0.9e-7], [1+1.1e-7, 2] (the 2e-8 wide slivers at the branch threshold 1 +- TOL are left out: which branch is taken there depends on the double rounding of TOL)",
               "given count": "concrete n in 1..6 (quick) / 1..12 (thorough)", "derived count": "symbolic integer"},
    "outside": ["IEEE rounding of int(log/log) at exact-integer solutions (floats are reals here)", "given counts above 12",
                "brentq's convergence tolerance", "count-from-size relations that solve for a real-valued count "
                "(start&end, start&total, end&total): only count >= 1, total > 0 and total reproduced exactly are claimed"],
    "assumptions": ["ground instances of: log strictly increasing, log(1)=0, log(b**e) = e*log(b), b**(e+k) = b**k * b**e, "
                    "b**e > 0, log(1/x) = -log(x)"],
    "must_reach": ["ok", "rejected"],
}


def install():
    from symx import stubs_opt

    META.setdefault("stubs", []).append(stubs_opt.install_brentq_model())


def _inputs(sx):
    _axioms(sx)
    L = sx.real("L", Fraction(1, 1000), 1000)
    return L


def _size(sx, name, L):
    s = sx.real(name, Fraction(1, 10 ** 7), 1000)
    sx.assume(sx.all([s >= L * sx.const(Fraction(1, 10000)), s <= L]), f"{name} between 1e-4*L and L")
    return s


def _calc(sx, L, **kw):
    """-> ("ok", count, total, chop) or ("rejected", exception name)"""
    from symx.core import NaNProduced
    try:
        chop = Chop(**kw)
        n, T = chop.calculate(L)
        return ("ok", n, T, chop)
    except (ValueError, ZeroDivisionError, OverflowError, NaNProduced) as e:
        return ("rejected", type(e).__name__, None, None)


def _pow_n(x, n):
    r = 1
    for _ in range(n):
        r = r * x
    return r


def _hook(ctx, name, a, g):
    """ground instances of the laws of log and b**e, added the moment an application is created (so that branch
    feasibility during the run already respects them)"""
    from symx.core import R
    y = ctx.zv[g]
    if name == "LOG":
        x = a.z()
        ctx.add(z3.And(z3.Implies(x > 1, y > 0), z3.Implies(x == 1, y == 0), z3.Implies(x < 1, y < 0)))
        for n2, a2, g2 in ctx.uf_apps:
            if n2 == "LOG" and g2 != g:
                x2, y2 = a2.z(), ctx.zv[g2]
                ctx.add(z3.Implies(x < x2, y < y2))
                ctx.add(z3.Implies(x > x2, y > y2))
                ctx.add(z3.Implies(x * x2 == 1, y == -y2))
    elif name == "POW":
        b, e = a
        bc = b.concrete()
        if bc is not None and bc <= 0:
            return
        ctx.add(y > 0)
        ly, lb = R.gen(g).log(), b.log()
        ctx.add(ly.z() == e.z() * lb.z())
        for n2, a2, g2 in ctx.uf_apps:
            if n2 == "POW" and g2 != g and not (a2[0] - b).p:
                k = (e - a2[1]).concrete()
                if k is not None and k.denominator == 1 and abs(k) <= 3:
                    k = int(k)
                    if k >= 0:
                        ctx.add(y == _pow_n(b, k).z() * ctx.zv[g2])
                    else:
                        ctx.add(ctx.zv[g2] == _pow_n(b, -k).z() * y)
    elif name == "ROOT":
        b, m = a
        ly, lb = R.gen(g).log(), b.log()
        ctx.add(ly.z() * m == lb.z())


def _axioms(sx):
    if sx.sym and _hook not in sx.ctx.axiom_hooks:
        sx.ctx.axiom_hooks.append(_hook)


# ---- count given (concrete n) ----------------------------------------------------------------------
def run_count_c2c(sx, n):
    L = _inputs(sx)
    c = sx.real("c", Fraction(1, 2), 2)
    out = _calc(sx, L, count=n, c2c_expansion=c)
    sx.reach(out[0])
    sx.prove(out[0] == "ok", f"count={n} & c2c in [0.5,2] is realisable and must be accepted", "C03:count+c2c:rejected")
    if out[0] != "ok":
        return out[0]
    _, cnt, T, chop = out
    sx.prove(cnt == n, "the given count is reproduced exactly", "C03:count+c2c:count")
    sx.prove_close(T, _pow_n(c, n - 1), "total expansion == c2c**(count-1)", tol=1e-12, key="C03:count+c2c:total")
    # first cell under the law (c != 1): s0*(1 + c + ... + c^(n-1)) == L
    s0 = chop.results["start_size"]
    geo = sum(_pow_n(c, i) for i in range(n))
    sx.prove(sx.all([s0 > 0, sx.close(s0 * geo, L, 1e-6 * 1000)]), "resolved start size obeys sum of cells == length "
             "(to 1e-6 near c2c = 1)", "C03:count+c2c:start_size")
    _invert_check(sx, L, dict(count=n, c2c_expansion=c), cnt, T, "count+c2c")
    return "ok"


def run_count_size(sx, n, which):
    L = _inputs(sx)
    s = _size(sx, "s", L)
    kw = {"count": n, which: s}
    out = _calc(sx, L, **kw)
    sx.reach(out[0])
    # realisable iff n cells of a geometric progression with that first (last) cell and total ratio within the library's
    # documented range exist: for n >= 2 any 0 < s < L works in principle (ratio bounded by R_MAX = 1e7)
    if out[0] != "ok":
        # realisable with a total expansion inside [1e-6, 1e6] - one decade inside the library's documented limits
        # (R_MAX = 1e7) - i.e. a cell-to-cell ratio inside [1/cmax, cmax], cmax = 1e6**(1/(n-1)) (margin 1e-3)
        cmax = Fraction(int(1e6 ** (1.0 / max(n - 1, 1)) * 1000), 1000)
        lo_sum = sum((1 / cmax) ** i for i in range(n))
        hi_sum = sum(cmax ** i for i in range(n))
        feasible = sx.all([s * sx.const(lo_sum * Fraction(1001, 1000)) <= L, s * sx.const(hi_sum * Fraction(999, 1000)) >= L]) \
            if n >= 2 else False
        sx.prove(sx.neg(feasible), f"count={n} & {which} comfortably inside the realisable range must be accepted",
                 f"C03:count+{which}:rejected")
        return out[0]
    _, cnt, T, chop = out
    _axioms(sx)
    sx.prove(cnt == n, "the given count is reproduced exactly", f"C03:count+{which}:count")
    sx.prove(T > 0, "total expansion is positive", f"C03:count+{which}:positive")
    # law: r = T^(1/(n-1)); the library's own c2c satisfies c^(n-1) == T (checked) and the first cell is L/(1+c+..)
    c = chop.results["c2c_expansion"]
    geo = sum(_pow_n(c, i) for i in range(n))
    first = L / geo
    last = first * _pow_n(c, n - 1)
    sx.prove_close(T, _pow_n(c, n - 1), "total expansion == c2c**(count-1)", tol=1e-9, key=f"C03:count+{which}:total")
    realised = first if which == "start_size" else last
    sx.prove(sx.all([realised - s <= s * sx.const(1e-6), s - realised <= s * sx.const(1e-6)]),
             f"the given {which} is realised by the returned count and expansion (relative 1e-6)",
             f"C03:count+{which}:size:{'n=1' if n == 1 else 'n>=2'}", info={"n": n})
    lo_sum = sum(Fraction(1, 2) ** i for i in range(n))
    hi_sum = sum(Fraction(2) ** i for i in range(n))
    moderate = sx.all([s * sx.const(lo_sum * Fraction(1001, 1000)) <= L, s * sx.const(hi_sum * Fraction(999, 1000)) >= L])
    _invert_check(sx, L, kw, cnt, T, f"count+{which}", given=moderate)
    return "ok"


def run_count_total(sx, n):
    L = _inputs(sx)
    T0 = sx.real("T", Fraction(1, 20), 20)
    out = _calc(sx, L, count=n, total_expansion=T0)
    sx.reach(out[0])
    if out[0] != "ok":
        sx.prove(n < 2, f"count={n} & total expansion must be accepted for count >= 2", "C03:count+total:rejected")
        return out[0]
    _, cnt, T, chop = out
    sx.prove(sx.all([cnt == n, sx.close(T, T0, 1e-12)]), "count and total expansion are reproduced exactly", "C03:count+total:exact")
    c = chop.results["c2c_expansion"]
    sx.prove_close(_pow_n(c, n - 1), T0, "resolved c2c satisfies c2c**(count-1) == total", tol=1e-9, key="C03:count+total:c2c")
    _invert_check(sx, L, dict(count=n, total_expansion=T0), cnt, T, "count+total")
    return "ok"


def _invert_params(sx, kw, tag):
    """Chop.invert() describes the same cells seen from the other end: start and end size swapped, both expansions
    reciprocal, count and length ratio kept. (Together with the per-pair obligations - each pair's calculation is right
    on its own domain - this covers reversal for the pairs whose reversed calculation the solver cannot decide directly.)"""
    ch = Chop(**kw)
    ch.invert()
    want = {"start_size": kw.get("end_size"), "end_size": kw.get("start_size"), "count": kw.get("count"),
            "c2c_expansion": None if kw.get("c2c_expansion") is None else 1 / kw["c2c_expansion"],
            "total_expansion": None if kw.get("total_expansion") is None else 1 / kw["total_expansion"]}
    conds = []
    for field, w in want.items():
        got = getattr(ch, field)
        conds.append(got is None if w is None else (got is not None and sx.close(got, w, 1e-12)))
    sx.prove(sx.all(conds), f"{tag}: invert() swaps start and end size, makes both expansions reciprocal and keeps the count",
             f"C03:{tag.split(':')[0]}:invert-params", info={"given": sorted(kw)})


def _invert_check(sx, L, kw, cnt, T, tag, given=True):
    _invert_params(sx, kw, tag)
    ch = Chop(**kw)
    ch.invert()
    from symx.core import NaNProduced
    try:
        n2, T2 = ch.calculate(L)
    except (ValueError, ZeroDivisionError, OverflowError, NaNProduced) as e:
        sx.prove(sx.neg(given), f"{tag}: the reversed chop is accepted like the original",
                 f"C03:{tag}:invert-rejected:{'n=1' if kw.get('count') == 1 else 'general'}", info={"exception": type(e).__name__})
        return
    _axioms(sx)
    sx.prove(sx.implies(given, n2 == cnt), f"{tag}: reversing the chop gives the same count", f"C03:{tag}:invert-count")
    sx.prove(sx.implies(given, sx.close(T2 * T, 1, 1e-9)), f"{tag}: reversing the chop gives the reciprocal total expansion",
             f"C03:{tag}:invert-total")


# ---- count derived -----------------------------------------------------------------------------------
def run_size_c2c(sx, which, side):
    """start_size (or end_size) & c2c: count = int(log(...)/log(c)) + 1"""
    L = _inputs(sx)
    s = _size(sx, "s", L)
    if side == "gt":
        c = sx.real("c", Fraction(1) + Fraction(11, 10 ** 8), 2)
    elif side == "lt":
        c = sx.real("c", Fraction(1, 2), Fraction(1) - Fraction(11, 10 ** 8))
    else:
        c = sx.real("c", Fraction(1) - Fraction(9, 10 ** 8), Fraction(1) + Fraction(9, 10 ** 8))
    kw = {which: s, "c2c_expansion": c}
    out = _calc(sx, L, **kw)
    sx.reach(out[0])
    if out[0] != "ok":
        # unrealisable only if the progression cannot cover the length: c < 1 and s/(1-c) <= L (start) etc.
        # a geometric series that shrinks away from the given cell covers at most size/(1 - ratio)
        if which == "start_size":
            realisable = sx.any([c >= 1, s > L * (1 - c) * sx.const(1.001)])
        else:
            realisable = sx.any([c <= 1, s * c > L * (c - 1) * sx.const(1.001)])
        sx.prove(sx.neg(realisable), f"{which} & c2c ({side}): realisable parameters must be accepted",
                 f"C03:{which}+c2c:rejected:{side}", info={"exception": out[1]})
        return out[0]
    _, n, T, chop = out
    _axioms(sx)
    sx.prove(n >= 1, "count >= 1", f"C03:{which}+c2c:count-positive:{side}")
    sx.prove(T > 0, "total expansion is positive", f"C03:{which}+c2c:positive:{side}")
    if side == "eq":
        # uniform branch: n = int(L/s) + 1 cells of size L/n <= s < L/(n-1)
        sx.prove(sx.all([L <= s * n * sx.const(1 + 1e-6), sx.any([n == 1, L >= s * (n - 1) * sx.const(1 - 1e-6)])]),
                 "uniform cells: never coarser than requested, coarser with one cell fewer", f"C03:{which}+c2c:rounding:eq")
        return "ok"
    # law with n cells and ratio c: first = L(c-1)/(c^n - 1), last = first*c^(n-1);   P = c^n, P1 = c^(n-1)
    P1 = c ** (n - 1)
    P = c ** n
    _axioms(sx)
    sx.prove_close(T, P1, "total expansion == c2c**(count-1)", tol=1e-9, key=f"C03:{which}+c2c:total:{side}")
    if which == "start_size":
        real_n = L * (c - 1) / (P - 1)
        real_n1 = L * (c - 1) / (P1 - 1)
    else:
        real_n = L * (c - 1) * P1 / (P - 1)
        real_n1 = L * (c - 1) * (P1 / c) / (P1 - 1)
    sx.prove(real_n <= s * sx.const(1 + 1e-9), f"{which} & c2c ({side}): the realised {which} is never coarser than requested",
             f"C03:{which}+c2c:never-coarser:{side}")
    sx.prove(sx.any([n <= 1, real_n1 >= s * sx.const(1 - 1e-9)]), f"{which} & c2c ({side}): with one cell fewer it would be coarser",
             f"C03:{which}+c2c:one-fewer:{side}")
    _invert_params(sx, kw, f"{which}+c2c:{side}")
    return "ok"


def run_c2c_total(sx, side):
    L = _inputs(sx)
    if side == "gt":
        c, T0 = sx.real("c", Fraction(1) + Fraction(11, 10 ** 8), 2), sx.real("T", 1, 50)
    else:
        c, T0 = sx.real("c", Fraction(1, 2), Fraction(1) - Fraction(11, 10 ** 8)), sx.real("T", Fraction(1, 50), 1)
    out = _calc(sx, L, c2c_expansion=c, total_expansion=T0)
    sx.reach(out[0])
    if out[0] != "ok":
        sx.prove(False, "c2c & total on the same side of 1 are realisable and must be accepted", f"C03:c2c+total:rejected:{side}",
                 info={"exception": out[1]})
        return out[0]
    _, n, T, chop = out
    _axioms(sx)
    sx.prove(n >= 1, "count >= 1", f"C03:c2c+total:count-positive:{side}")
    sx.prove_close(T, T0, "the given total expansion is reproduced exactly", tol=1e-12, key=f"C03:c2c+total:total:{side}")
    P1, P = c ** (n - 1), c ** n
    _axioms(sx)
    if side == "gt":
        ok = sx.all([P1 <= T0 * sx.const(1 + 1e-9), T0 <= P * sx.const(1 + 1e-9)])
    else:
        ok = sx.all([P1 >= T0 * sx.const(1 - 1e-9), T0 >= P * sx.const(1 - 1e-9)])
    sx.prove(ok, "count is the rounding of log(total)/log(c2c): c2c**(n-1) <= total < c2c**n (mirrored below 1)",
             f"C03:c2c+total:rounding:{side}")
    _invert_check(sx, L, dict(c2c_expansion=c, total_expansion=T0), n, T, f"c2c+total:{side}")
    return "ok"


def run_two_sizes(sx, pair):
    """pairs whose count is solved as a real number by brentq: only sanity + exact total are claimed"""
    L = _inputs(sx)
    if pair == "start+end":
        s, e = _size(sx, "s", L), _size(sx, "e", L)
        kw, want_T = dict(start_size=s, end_size=e), e / s
    elif pair == "start+total":
        s, T0 = _size(sx, "s", L), sx.real("T", Fraction(1, 20), 20)
        kw, want_T = dict(start_size=s, total_expansion=T0), T0
    else:
        e, T0 = _size(sx, "e", L), sx.real("T", Fraction(1, 20), 20)
        kw, want_T = dict(end_size=e, total_expansion=T0), T0
    out = _calc(sx, L, **kw)
    sx.reach(out[0])
    if out[0] != "ok":
        return out[0]
    _, n, T, chop = out
    _axioms(sx)
    sx.prove(n >= 1, f"{pair}: count >= 1", f"C03:{pair}:count-positive")
    sx.prove(sx.all([T > 0, sx.close(T, want_T, 1e-9)]), f"{pair}: total expansion is positive and the given/implied one",
             f"C03:{pair}:total")
    _invert_params(sx, kw, pair)
    return "ok"


def run_length_ratio(sx):
    """Grading.add_chop scales the length by length_ratio before calculating"""
    L = _inputs(sx)
    r = sx.real("ratio", Fraction(1, 100), 1)
    c = sx.real("c", Fraction(1, 2), 2)
    g = Grading(L)
    g.add_chop(Chop(length_ratio=r, count=4, c2c_expansion=c))
    sx.reach("ok")
    spec = g.specification[0]
    sx.prove(sx.all([sx.close(spec[0], r, 1e-12), spec[1] == 4, sx.close(spec[2], c * c * c, 1e-12)]),
             "Grading.specification == [length ratio, count, total expansion]", "C03:grading:specification")
    gi = g.inverted
    sx.prove(sx.all([gi.specification[0][1] == 4, sx.close(gi.specification[0][2] * spec[2], 1, 1e-9)]),
             "Grading.inverted: same count, reciprocal expansion", "C03:grading:inverted")
    return "ok"


def run_count_forms(sx):
    """a count that is not a plain int (a float from a division, a numpy integer): the relations see the integer that is
    returned, i.e. the given ratio / size is reproduced with the cell count blockMesh will use"""
    import numpy as _np
    L = _inputs(sx)
    c = sx.real("c", Fraction(1, 2), 2)
    form = sx.choice("form", 4)
    given = [2.5, 3.999, 4.0, _np.int64(3)][form]
    want_n = [2, 3, 4, 3][form]
    out = _calc(sx, L, count=given, c2c_expansion=c)
    sx.reach(out[0])
    tag = f"count={given!r} ({type(given).__name__})"
    if out[0] != "ok":
        sx.prove(False, f"{tag} & c2c: a realisable pair is accepted", "C03:count-forms:rejected", info={"exception": out[1]})
        return out[0]
    _, n, T, chop = out
    sx.prove(n == want_n and isinstance(n, int), f"{tag}: the returned count is the integer {want_n}", "C03:count-forms:count",
             info={"returned": str(n)})
    sx.prove_close(T, _pow_n(c, want_n - 1), f"{tag} & c2c: total expansion == c2c**(returned count - 1)", tol=1e-12,
                   key="C03:count-forms:total")
    return "ok"


def run_multigrading(sx):
    """a multigraded edge seen from the other end: the divisions in reverse order, each with its own length fraction and
    count and the reciprocal of its own expansion"""
    L = _inputs(sx)
    r = sx.real("ratio", Fraction(1, 10), Fraction(9, 10))
    c1, c2 = sx.real("c1", Fraction(1, 2), 2), sx.real("c2", Fraction(1, 2), 2)
    g = Grading(L)
    g.add_chop(Chop(length_ratio=r, count=3, c2c_expansion=c1))
    g.add_chop(Chop(length_ratio=1 - r, count=2, c2c_expansion=c2))
    g.add_chop(Chop(length_ratio=sx.const(1), count=4, total_expansion=c1 * c2))   # ratios are normalised when written
    sx.reach("ok")
    spec = g.specification
    want = [(r, 3, c1 * c1), (1 - r, 2, c2), (1, 4, c1 * c2)]
    sx.prove(len(spec) == 3 and sx.all([sx.all([sx.close(s_[0], w[0], 1e-12), s_[1] == w[1], sx.close(s_[2], w[2], 1e-12)])
                                        for s_, w in zip(spec, want)]),
             "Grading.specification lists the divisions in the order they were added", "C03:multigrading:specification")
    sx.prove(g.count == 9, "the count of a multigraded edge is the sum of its divisions", "C03:multigrading:count")
    inv = g.inverted.specification
    sx.prove(len(inv) == 3 and sx.all([sx.all([sx.close(i_[0], w[0], 1e-12), i_[1] == w[1], sx.close(i_[2] * w[2], 1, 1e-9)])
                                       for i_, w in zip(inv, reversed(want))]),
             "Grading.inverted: divisions in reverse order, each keeping its length fraction and count, expansion reciprocal",
             "C03:multigrading:inverted")
    sx.prove(len(g.specification) == 3 and sx.close(g.specification[0][2], c1 * c1, 1e-12),
             "Grading.inverted leaves the original untouched", "C03:multigrading:inverted-pure")
    return "ok"


def jobs(tier, seed):
    js = []

    def add(fn, name, **p):
        js.append({"name": name, "fn": fn, "params": p, "budget_s": 240 if tier == "quick" else 1500,
                   "timeout_ms": 20000 if tier == "quick" else 120000})

    counts = (1, 2, 3, 4, 6) if tier == "quick" else tuple(range(1, 13))
    for n in counts:
        add("run_count_c2c", f"count={n}+c2c", n=n)
        add("run_count_total", f"count={n}+total", n=n)
        for which in ("start_size", "end_size"):
            add("run_count_size", f"count={n}+{which}", n=n, which=which)
    for which in ("start_size", "end_size"):
        for side in ("gt", "lt", "eq"):
            if which == "end_size" and side == "lt" and tier == "quick":
                continue        # > 5 min in the solver; thorough tier only
            add("run_size_c2c", f"{which}+c2c|{side}", which=which, side=side)
    for side in ("gt", "lt"):
        add("run_c2c_total", f"c2c+total|{side}", side=side)
    if tier == "thorough":
        for pair in ("start+end", "start+total", "end+total"):
            add("run_two_sizes", pair, pair=pair)
    add("run_length_ratio", "grading+length_ratio")
    add("run_multigrading", "grading|three divisions|inverted")
    add("run_count_forms", "count given as float / numpy integer")
    return js
