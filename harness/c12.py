"""C12 - assemble/clear/backport/delete/write round-trips preserve the model."""
import itertools

import numpy as np

import classy_blocks as cb

from . import bmd, c06, g1

PROPERTY = "C12"
META = {
    "explanation": "Histories over {write, clear, assemble, backport, move a vertex, delete an operation, modify_patch, "
                   "set_default_patch} are chosen step by step by the solver (fork on value) on small box models with "
                   "symbolic placement; a reference interpreter in the harness keeps the abstract model (live operations with "
                   "their current corner positions, patch table, default patch) and, at every write, builds a fresh Mesh from "
                   "it; the file written by the mesh that went through the history must equal the file written by the "
                   "fresh mesh (structure syntactically, coordinates through the solver). Differential testing of the "
                   "library against itself across histories: the trusted part is that a freshly built model writes what "
                   "it should (C06).",
    "bounds": {"history length": "<= 3 actions + final write (quick) / <= 4 (thorough)", "base models": "2 boxes sharing a face "
               "(quick), 3 boxes in a row (thorough)", "moved vertex": "quick: a shared vertex / one owned by the first / by the last block (fork); thorough: any vertex index (fork), displacement 3 symbolic "
               "reals |d| <= 0.2", "placement": "symbolic origin and extents"},
    "outside": ["histories longer than the bound", "modify_patch of a patch that has no faces (its operation is deleted): the "
                "library creates a phantom empty patch that disappears on clear()", "optimizer/smoother moves (C13/C15)", "an inductive single-step formulation "
                "(the Mesh object graph is not encodable as a symbolic pre-state)"],
    "assumptions": ["a delete() takes effect at the next (re)assembly"],
    "must_reach": ["write"],
}

ACTIONS = ["write", "clear", "backport", "move", "delete", "modify_patch", "set_default"]


class Model:
    """abstract model kept by the harness"""

    def __init__(self, sx, n, symbolic_placement=True, bundle=False):
        self.sx = sx
        self.bundle = bundle
        if symbolic_placement:
            o = [sx.real(f"o{i}", -5, 5) for i in range(3)]
            ex = [sx.real(f"ex{i}", 1, 3) for i in range(n)]
            ey, ez = sx.real("ey", 1, 3), sx.real("ez", 1, 3)
        else:
            o = [sx.const(x) for x in (0.5, -1.0, 0.25)]
            ex = [sx.const(x) for x in (1.0, 1.5, 1.25)[:n]]
            ey, ez = sx.const(1.25), sx.const(2.0)
        self.corners = []       # per operation: 8 corner positions (current depot state)
        x0 = o[0]
        for i in range(n):
            lo, hi = [x0, o[1], o[2]], [x0 + ex[i], o[1] + ey, o[2] + ez]
            self.corners.append([np.array(c06._corner(lo, hi, k), dtype=object if sx.sym else float) for k in range(8)])
            x0 = x0 + ex[i]
        self.n = n
        self.deleted = set()
        self.patch_mod = {}      # name -> (kind, settings)
        self.default = None

    def decorate(self, ops):
        for i, op in enumerate(ops):
            op.set_patch("top", "lid")
            op.set_patch("front", f"front{i}")
            op.set_cell_zone(f"z{i}")
            op.chop(0, count=2 + i)
            op.chop(1, count=3)
            op.chop(2, count=4)
        # the last operation projects two corners it shares with its neighbour (and one of its own): if it is deleted, the
        # projections go with it
        ops[-1].project_corner(0, "terrain")
        ops[-1].project_corner(4, ["terrain", "wall"])
        ops[-1].project_corner(6, "wall")

    def build(self, corners, deleted, patch_mod, default):
        """a fresh Mesh from an abstract state"""
        mesh = cb.Mesh()
        ops = [cb.Loft(cb.Face(c[:4]), cb.Face(c[4:])) for c in corners]
        self.decorate(ops)
        if self.bundle:
            # all operations in ONE multi-operation entity (like a Shape/Stack)
            mesh.add(Bundle([op for i, op in enumerate(ops) if i not in deleted]))
        else:
            for i, op in enumerate(ops):
                if i not in deleted:
                    mesh.add(op)
        mesh.add_geometry({g: ["type triSurfaceMesh", f'file "{g}.stl"'] for g in ("terrain", "wall")})
        for name, (kind, settings) in patch_mod.items():
            mesh.modify_patch(name, kind, settings)
        if default:
            mesh.set_default_patch(*default)
        return mesh, ops


class Bundle(cb.Shape):
    """a user-defined multi-operation entity"""

    def __init__(self, ops):
        self._ops = list(ops)

    @property
    def operations(self):
        return self._ops

    @property
    def grid(self):
        return [self._ops]


def _same_file(sx, got, want, label, key):
    """structural equality of two parsed files; coordinates compared through the solver"""
    problems = []
    if len(got["vertices"]) != len(want["vertices"]):
        problems.append(f"vertex count {len(got['vertices'])} != {len(want['vertices'])}")
    if [b["indexes"] for b in got["blocks"]] != [b["indexes"] for b in want["blocks"]]:
        problems.append(f"hex vertex lists {[b['indexes'] for b in got['blocks']]} != {[b['indexes'] for b in want['blocks']]}")
    if [b["zone"] for b in got["blocks"]] != [b["zone"] for b in want["blocks"]]:
        problems.append("cell zones differ")
    if [b["grading_kind"] for b in got["blocks"]] != [b["grading_kind"] for b in want["blocks"]]:
        problems.append("simple/edge grading differs")
    if sorted(got["boundary_order"]) != sorted(want["boundary_order"]):     # the order of patches carries no meaning
        problems.append(f"patch names {got['boundary_order']} != {want['boundary_order']}")
    else:
        for n in got["boundary"]:
            a, b = got["boundary"][n], want["boundary"][n]
            if (a["type"], a["settings"], a["faces"]) != (b["type"], b["settings"], b["faces"]):
                problems.append(f"patch {n}: {a['type']} {a['settings']} {a['faces']} != {b['type']} {b['settings']} {b['faces']}")
    if [sorted(v["project"]) for v in got["vertices"]] != [sorted(v["project"]) for v in want["vertices"]]:
        problems.append(f"projected vertices {[(i, v['project']) for i, v in enumerate(got['vertices']) if v['project']]} != "
                        f"{[(i, v['project']) for i, v in enumerate(want['vertices']) if v['project']]}")
    if got["geometry"] != want["geometry"]:
        problems.append("geometry sections differ")
    if got["default"] != want["default"]:
        problems.append(f"defaultPatch {got['default']} != {want['default']}")
    if got["merged"] != want["merged"] or got["faces"] != want["faces"] or len(got["edges"]) != len(want["edges"]):
        problems.append("merged/faces/edges differ")
    conds = [not problems]
    if len(got["vertices"]) == len(want["vertices"]):
        for a, b in zip(got["vertices"], want["vertices"]):
            conds += [sx.close(x, y, 1e-8) for x, y in zip(a["pos"], b["pos"])]
    if len(got["blocks"]) == len(want["blocks"]):
        for a, b in zip(got["blocks"], want["blocks"]):
            ca, cb_ = list(a["counts"]), list(b["counts"])
            conds += [sx.close(x, y, 1e-9) for x, y in zip(ca, cb_)]
    sx.prove(sx.all(conds), label, key, info={"differences": problems[:6]})


def run(sx, n, steps, restrict=None, all_vertices=False, symbolic_placement=True, bundle=False):
    M = Model(sx, n, symbolic_placement, bundle)
    M.bundle = False
    mesh = cb.Mesh()
    ops = [cb.Loft(cb.Face(c[:4]), cb.Face(c[4:])) for c in M.corners]
    M.decorate(ops)
    if bundle:
        mesh.add(Bundle(ops))      # the mesh under test holds all operations in one entity; deletions happen inside it
    else:
        for op in ops:
            mesh.add(op)
    mesh.add_geometry({g: ["type triSurfaceMesh", f'file "{g}.stl"'] for g in ("terrain", "wall")})
    # the assembled snapshot the library works on (None = not assembled)
    snap = None
    history = []
    nwrites = 0
    alphabet = restrict or ACTIONS
    for step in range(steps + 1):
        act = "write" if step == steps else alphabet[sx.choice(f"act{step}", len(alphabet))]
        history.append(act)
        if act == "write":
            if snap is None:
                snap = {"corners": [[np.array(p, dtype=p.dtype) for p in c] for c in M.corners], "deleted": set(M.deleted)}
            try:
                got, _, _ = c06._write(sx, mesh, vtk=False)
            except Exception as e:  # the history makes the library fail where a fresh model would not
                fresh, _ = M.build(snap["corners"], snap["deleted"], M.patch_mod, M.default)
                try:
                    c06._write(sx, fresh, vtk=False)
                    fresh_ok = True
                except Exception:
                    fresh_ok = False
                sx.reach("write")
                sx.prove(not fresh_ok, f"history {history}: write raises {type(e).__name__} although a freshly built "
                         "equivalent model is written fine", f"C12:write-raises:{_cls(history)}", info={"history": history})
                return "raised:" + ">".join(history)
            fresh, _ = M.build(snap["corners"], snap["deleted"], M.patch_mod, M.default)
            want, _, _ = c06._write(sx, fresh, vtk=False)
            nwrites += 1
            sx.reach("write")
            _same_file(sx, got, want, f"history {history}: the written file equals that of a freshly built equivalent model",
                       f"C12:file:{_cls(history)}")
        elif act == "clear":
            mesh.clear()
            snap = None
        elif act == "assemble":
            if snap is not None:
                continue
            mesh.assemble()
            snap = {"corners": [[np.array(p, dtype=p.dtype) for p in c] for c in M.corners], "deleted": set(M.deleted)}
        elif act == "backport":
            if snap is None:
                return "not-assembled"        # RuntimeError territory of C20
            mesh.backport()
            # depot takes the positions of the assembled snapshot; then re-assembly with the current deletions
            live = [i for i in range(n) if i not in snap["deleted"]]
            for i in live:
                M.corners[i] = [np.array(p, dtype=p.dtype) for p in snap["corners"][i]]
            snap = {"corners": [[np.array(p, dtype=p.dtype) for p in c] for c in M.corners], "deleted": set(M.deleted)}
            # direct obligation: Operation.point_array of every live operation equals its own (moved) corners
            conds = []
            for i in range(n):
                pa = ops[i].point_array
                for k in range(8):
                    conds += [sx.close(x, y, 1e-8) for x, y in zip(pa[k], M.corners[i][k])]
            sx.prove(sx.all(conds), f"history {history}: after backport every operation has the positions of its own vertices",
                     f"C12:backport:{_cls(history)}")
        elif act == "move":
            if snap is None:
                mesh.assemble()
                snap = {"corners": [[np.array(p, dtype=p.dtype) for p in c] for c in M.corners], "deleted": set(M.deleted)}
            if all_vertices:
                v = sx.choice(f"vertex{step}", len(mesh.vertices))
            else:
                # representatives: a vertex shared by two blocks (if any), one owned by the first, one by the last block
                owners = {}
                for bi, b in enumerate(mesh.blocks):
                    for vert in b.vertices:
                        owners.setdefault(vert.index, set()).add(bi)
                shared = [i for i, o in owners.items() if len(o) > 1]
                first = [i for i, o in owners.items() if o == {0}]
                last = [i for i, o in owners.items() if o == {len(mesh.blocks) - 1}]
                reps = [x[len(x) // 2] for x in (shared, first, last) if x]
                v = reps[sx.choice(f"vertex{step}", len(reps))]
            d = sx.vec(*[sx.real(f"d{step}_{a}", -0.1, 0.1) for a in range(3)])
            old = np.array(mesh.vertices[v].position, dtype=mesh.vertices[v].position.dtype)
            mesh.vertices[v].move_to(old + d)
            # abstract: every corner of a live (assembled) operation that sits on that vertex moves
            k = 0
            for b, i in zip(mesh.blocks, [i for i in range(n) if i not in snap["deleted"]]):
                for c in range(8):
                    if b.vertices[c] is mesh.vertices[v]:
                        snap["corners"][i][c] = old + d
        elif act == "delete":
            j = sx.choice(f"del{step}", n)
            if j == 0 and "front0" in M.patch_mod:
                return "skip:modify-patch-without-faces"
            if len(M.deleted | {j}) == n:
                return "skip:delete-all"      # an empty mesh cannot be assembled; outside the statement
            mesh.delete(ops[j])
            M.deleted.add(j)
        elif act == "modify_patch":
            which = sx.choice(f"mod{step}", 4)
            args = [("lid", "wall", None), ("front0", "cyclic", ["neighbourPatch x"]),
                    ("lid", "cyclic", ["neighbourPatch y", "transform none"]), ("front0", "wall", None)][which]
            if args[0] == "front0" and 0 in M.deleted:
                return "skip:modify-patch-without-faces"     # outside the claim (phantom empty patch)
            mesh.modify_patch(*args)
            kind, settings = args[1], args[2]
            prev = M.patch_mod.get(args[0], ("patch", []))
            M.patch_mod[args[0]] = (kind, prev[1] if settings is None else settings)
        elif act == "set_default":
            mesh.set_default_patch("rest", "wall")
            M.default = ("rest", "wall")
    return ">".join(history)


def _cls(history):
    """finding class of a history: the order-preserving set of action kinds it contains"""
    seen = []
    for a in history:
        if a not in seen:
            seen.append(a)
    if history.count("write") > 1:
        seen.append("write-again")
    return "+".join(seen)


def jobs(tier, seed):
    js = []
    steps = 2 if tier == "quick" else 3
    for first in itertools.product(ACTIONS, ACTIONS):
        # the first two actions are fixed per job (parallelism); the rest is chosen by the solver
        for bundle in (False, True):
            js.append({"name": f"2boxes|first={'>'.join(first)}|steps={steps}|one-entity={bundle}", "fn": "run_first",
                       "params": {"n": 2 if not bundle else 3, "steps": steps, "first": list(first), "all_vertices": tier == "thorough",
                                  "symbolic_placement": tier == "thorough", "bundle": bundle},
                       "budget_s": 280 if tier == "quick" else 1500, "max_paths": 4000 if tier == "quick" else 40000})
    # longer histories around delete + repeated re-assembly (three boxes, every action forced; the deleted operation and the
    # moved vertex are still chosen by the solver)
    for first in (("write", "delete", "backport", "backport"), ("write", "delete", "backport", "move", "backport"),
                  ("write", "delete", "clear", "write", "backport"), ("delete", "write", "backport", "move", "backport")):
        js.append({"name": f"3boxes|{'>'.join(first)}", "fn": "run_first",
                   "params": {"n": 3, "steps": len(first) - 1, "first": list(first), "symbolic_placement": False},
                   "budget_s": 280 if tier == "quick" else 1500})
    if tier == "quick":
        # symbolic placement on the histories around move/backport
        for first in ("move", "delete"):
            js.append({"name": f"2boxes|first={first}|steps=1|symbolic placement", "fn": "run_first",
                       "params": {"n": 2, "steps": 1, "first": first, "symbolic_placement": True}, "budget_s": 280})
    return js


def run_first(sx, n, steps, first, all_vertices=False, symbolic_placement=True, bundle=False):
    # history = first action, then `steps` solver-chosen actions, then the final write
    return _run_with_first(sx, n, steps, first, all_vertices, symbolic_placement, bundle)


def _run_with_first(sx, n, steps, first, all_vertices=False, symbolic_placement=True, bundle=False):
    orig_choice = sx.choice
    state = {"used": False}

    forced = {f"act{i}": a for i, a in enumerate(first if isinstance(first, (list, tuple)) else [first])}

    def choice(name, k):
        if name in forced:
            return ACTIONS.index(forced[name])
        return orig_choice(name, k)
    sx.choice = choice
    try:
        return run(sx, n, steps + 1, all_vertices=all_vertices, symbolic_placement=symbolic_placement, bundle=bundle)
    finally:
        sx.choice = orig_choice
