"""C05 - one vertex per distinct point; duplicates only across merged patches."""
import itertools

import numpy as np

import classy_blocks as cb

from . import g1

PROPERTY = "C05"
TOL = 1e-7
META = {
    "explanation": "Unit lattice boxes (Lofts) are added to a Mesh in a solver-chosen order; every corner of every "
                   "operation carries its own symbolic jitter (|d| <= TOL/8 per coordinate), so 'same position' is a "
                   "tolerance decision made by z3 inside the real VertexList.add/find_unique/find_duplicated; patches and "
                   "merged pairs follow scenario tables. After the real Mesh.assemble the vertex index of every block "
                   "corner is compared with a harness-side partition: same vertex <=> same lattice point and same set of "
                   "slave patches touching the corner (derived from the geometric position of the sides, not from "
                   "FACE_MAP); indices dense in first-use order.",
    "bounds": {"operations": "2-4 unit boxes", "jitter": "3 reals per jittered corner, |d| <= TOL/8; quick: the corners of "
               "the first two operations, thorough: all", "orders": "all permutations (<= 3 ops) / 6 (4 ops)",
               "scenarios": "no patches; master/slave on a contact face (either side); slave on a top face under two "
               "master blocks; two merged pairs meeting at one edge; slave name reused on a far side"},
    "outside": ["more than 4 operations", "points closer than 2.5 TOL but farther than TOL/2 (non-transitive tolerance chains)",
                "a block next to a slave-side block that does not carry the slave patch itself"],
    "assumptions": ["two corners are either the same lattice point (within TOL/4) or at least 0.99 apart - in the 'thin layer' "
                    "jobs at least 2.5 TOL apart (symbolic layer thickness h in [2.5 TOL, 2])"],
    "must_reach": ["assembled"],
}

SIDE_AXIS = {"left": (0, 0), "right": (0, 1), "front": (1, 0), "back": (1, 1), "bottom": (2, 0), "top": (2, 1)}

# layout: cells; patches: (cell index, side, name); merges: (master, slave)
SCENARIOS = {
    "face-x:none": {"cells": [(0, 0, 0), (1, 0, 0)], "patches": [], "merges": []},
    "face-x:slave-on-second": {"cells": [(0, 0, 0), (1, 0, 0)], "patches": [(0, "right", "m"), (1, "left", "s")],
                               "merges": [("m", "s")]},
    "face-x:slave-on-first": {"cells": [(0, 0, 0), (1, 0, 0)], "patches": [(0, "right", "s"), (1, "left", "m")],
                              "merges": [("m", "s")]},
    "stack-z:slave-on-top-face": {"cells": [(0, 0, 0), (0, 0, 1)], "patches": [(0, "top", "s"), (1, "bottom", "m")],
                                  "merges": [("m", "s")]},
    "stack-z:slave-on-bottom-face": {"cells": [(0, 0, 0), (0, 0, 1)], "patches": [(0, "top", "m"), (1, "bottom", "s")],
                                     "merges": [("m", "s")]},
    "edge-contact:none": {"cells": [(0, 0, 0), (1, 1, 0)], "patches": [(0, "top", "lid")], "merges": []},
    "vertex-contact:none": {"cells": [(0, 0, 0), (1, 1, 1)], "patches": [], "merges": []},
    "2x2:slaves-below-masters": {"cells": [(0, 0, 0), (1, 0, 0), (0, 0, 1), (1, 0, 1)],
                                 "patches": [(0, "top", "s"), (1, "top", "s"), (2, "bottom", "m"), (3, "bottom", "m")],
                                 "merges": [("m", "s")]},
    "L:two-pairs-meeting": {"cells": [(0, 0, 0), (1, 0, 0), (0, 1, 0)],
                            "patches": [(0, "right", "m1"), (1, "left", "s1"), (0, "back", "m2"), (2, "front", "s2")],
                            "merges": [("m1", "s1"), ("m2", "s2")]},
    "face-x:slave-name-reused": {"cells": [(0, 0, 0), (1, 0, 0)],
                                 "patches": [(0, "right", "m"), (1, "left", "s"), (1, "right", "s"), (0, "left", "walls")],
                                 "merges": [("m", "s")]},
    "row4:slave-of-one-pair-is-master-of-the-next": {
        "cells": [(0, 0, 0), (1, 0, 0), (2, 0, 0), (3, 0, 0)],
        "patches": [(0, "right", "a_right"), (1, "left", "mid"), (2, "right", "mid"), (3, "left", "c_left")],
        "merges": [("a_right", "mid"), ("mid", "c_left")]},
    "row3:plain-patches": {"cells": [(0, 0, 0), (1, 0, 0), (2, 0, 0)],
                           "patches": [(0, "left", "inlet"), (2, "right", "outlet"), (1, "top", "lid")], "merges": []},
}


def _corner_sides(k):
    bits = g1.CORNERS[k]
    return [s for s, (ax, end) in SIDE_AXIS.items() if bits[ax] == end]


def run(sx, scenario, jitter_ops, thin_axis=None, reassemble=False):
    sc = SCENARIOS[scenario]
    h = None
    if thin_axis is not None:
        # lattice coordinates 0, 1, 2, ... along this axis sit at 0, h, h + 1, ...: the first layer of cells is thin,
        # down to 2.5 merge tolerances - distinct points, however close, are distinct vertices
        h = sx.real("h", 2.5 * TOL, 2)

    def coord(a, c):
        if a != thin_axis or c == 0:
            return sx.const(c)
        return h + sx.const(c - 1)

    cells = sc["cells"]
    n = len(cells)
    # insertion order chosen by the solver
    remaining = list(range(n))
    order = []
    while remaining:
        k = sx.choice(f"order{len(order)}", len(remaining))
        order.append(remaining.pop(k))
    merge_order = list(range(len(sc["merges"])))
    if len(merge_order) == 2 and sx.flag("merge_swapped"):
        merge_order.reverse()
    mesh = cb.Mesh()
    ops = {}
    lattice = {}
    for i in range(n):
        base = g1.cell_points(cells[i])
        pts = []
        for k, p in enumerate(base):
            if i in jitter_ops:
                d = [sx.real(f"j{i}_{k}_{a}", -TOL / 8, TOL / 8) for a in range(3)]
                pts.append([coord(a, int(round(p[a]))) + d[a] for a in range(3)])
            else:
                pts.append([coord(a, int(round(p[a]))) for a in range(3)])
            lattice[(i, k)] = tuple(int(round(x)) for x in p)
        pts = sx.arr(pts)
        ops[i] = cb.Loft(cb.Face(pts[:4]), cb.Face(pts[4:]))
    for (i, side, name) in sc["patches"]:
        ops[i].set_patch(side, name)
    for mi in merge_order:
        mesh.merge_patches(*sc["merges"][mi])
    for i in order:
        mesh.add(ops[i])
    mesh.assemble(skip_edges=True)
    # the same mesh assembled again (solver's choice): not at all, after clear(), or through backport() (what optimisers
    # and smoothers end with); the vertex list of the last assembly is the one judged
    again = sx.choice("reassemble", 3) if reassemble else 0
    if again == 1:
        mesh.clear()
        mesh.assemble(skip_edges=True)
    elif again == 2:
        mesh.backport()
    sx.reach("assembled")
    blocks = {i: mesh.blocks[k] for k, i in enumerate(order)}
    slaves = {s for _, s in sc["merges"]}
    # harness-side partition
    key = {}
    for i in range(n):
        for k in range(8):
            touching = set(_corner_sides(k))
            sl = frozenset(name for (ci, side, name) in sc["patches"] if ci == i and side in touching and name in slaves)
            key[(i, k)] = (lattice[(i, k)], sl)
    index = {(i, k): blocks[i].vertices[k].index for i in range(n) for k in range(8)}
    bad = []
    for a, b in itertools.combinations(sorted(key), 2):
        same_expected = key[a] == key[b]
        same_got = index[a] == index[b]
        if same_expected != same_got:
            bad.append((a, b, "should share one vertex" if same_expected else "must not share a vertex"))
    sx.prove(not bad, "block corners refer to the same vertex exactly when they are at the same point and touch the same "
             "slave patches", f"C05:connectivity:{scenario}", info={"order": order, "mismatches": [list(map(str, x)) for x in bad[:6]]})
    # dense numbering in first-use order
    seen = []
    for i in order:
        for k in range(8):
            if index[(i, k)] not in seen:
                seen.append(index[(i, k)])
    sx.prove(seen == list(range(len(seen))) and len(mesh.vertices) == len(seen),
             "vertex numbers are dense and follow first use", f"C05:numbering:{scenario}", info={"first_use": seen[:30]})
    sx.prove(all(v.index == pos for pos, v in enumerate(mesh.vertices)), "vertex number == position in the written list",
             f"C05:list-position:{scenario}")
    nexp = len(set(key.values()))
    sx.prove(len(mesh.vertices) == nexp, "number of vertices == number of distinct (point, slave patches) classes",
             f"C05:count:{scenario}", info={"expected": nexp, "got": len(mesh.vertices)})
    return "assembled"


def jobs(tier, seed):
    js = []
    for name, sc in SCENARIOS.items():
        n = len(sc["cells"])
        jit = [0, 1] if tier == "quick" else list(range(n))
        if tier == "quick" and n > 2:
            jit = [0]
        js.append({"name": name, "fn": "run", "params": {"scenario": name, "jitter_ops": jit},
                   "budget_s": 240 if tier == "quick" else 1500, "timeout_ms": 20000 if tier == "quick" else 60000})
        if name in ("face-x:slave-on-second", "L:two-pairs-meeting", "row3:plain-patches") or tier == "thorough":
            js.append({"name": f"{name}|assembled again", "fn": "run", "params": {"scenario": name, "jitter_ops": [], "reassemble": True},
                       "budget_s": 240 if tier == "quick" else 1500, "timeout_ms": 20000 if tier == "quick" else 60000})
        thin = {"stack-z:slave-on-top-face": [2], "face-x:none": [0, 1], "edge-contact:none": [1], "row3:plain-patches": [0]}
        for ax in (thin.get(name, []) if tier == "quick" else [0, 1, 2]):
            js.append({"name": f"{name}|thin layer along {'xyz'[ax]}", "fn": "run",
                       "params": {"scenario": name, "jitter_ops": jit[:1], "thin_axis": ax},
                       "budget_s": 240 if tier == "quick" else 1500, "timeout_ms": 20000 if tier == "quick" else 60000})
    return js
