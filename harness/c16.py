"""C16 - curve points, lengths and closest-parameter queries are mutually consistent."""
import math
from fractions import Fraction

import numpy as np

import classy_blocks as cb
from classy_blocks.items.edges.factory import factory
from classy_blocks.items.vertex import Vertex

PROPERTY = "C16"
META = {
    "explanation": "DiscreteCurve, LinearInterpolatedCurve and LineCurve are built from unevenly spaced points with symbolic "
                   "coordinates; parameters (in either order), the split parameter and the query point are symbolic. z3 shows: "
                   "discretize(a,b) starts at point(a) and ends at point(b); an interpolated curve passes through its "
                   "defining points at its own parameters; length(a,b) == length(a,m) + length(m,b); the length of a "
                   "piecewise-linear curve equals the polyline through all break points between a and b; "
                   "get_closest_param of a discrete curve returns a point at least as close as every defining point; an "
                   "edge snapped to a discrete curve is written with the curve points between its two vertices and has "
                   "the curve length between them.",
    "bounds": {"points": "discrete: 4-5 unevenly spaced points, two of them with symbolic offsets |d| <= 0.15; interpolated and "
               "closest-point query: concrete unevenly spaced points", "parameters": "all index pairs (discrete, fork), symbolic reals in [0,1] "
               "(interpolated, line)"},
    "outside": ["SplineInterpolatedCurve (scipy B-spline construction)", "CircleCurve / general AnalyticCurve lengths (99 "
                "sqrt terms of trigonometric points)", "FunctionCurveBase.get_closest_param beyond the descent contract of its minimiser (no "
                "first-order optimality is claimed) and curve-snapped edges on analytic curves"],
    "assumptions": ["scipy.interpolate.interp1d(kind='linear') is modelled as piecewise-linear interpolation over the (symbolic) "
                    "break points; validated against scipy on concrete inputs each run"],
    "must_reach": ["discrete", "interpolated", "line", "edge", "analytic"],
}

BASE = [(0.0, 0.0, 0.0), (0.4, 0.3, 0.1), (1.5, 0.2, -0.2), (1.9, 1.1, 0.3), (2.1, 1.2, 0.9)]


def interp1d_model(x, y, bounds_error=True, fill_value=np.nan, axis=0, kind="linear", **kw):
    from symx.core import R
    xs = [R.lift(v) for v in np.asarray(x, dtype=object).ravel()]
    ys = np.array(y, dtype=object, copy=True)      # scipy copies x and y by default (copy=True)
    if kw.get("copy") is False:
        ys = np.asarray(y, dtype=object)            # ... and keeps a view when told not to

    def f(t):
        t = R.lift(t)
        n = len(xs)
        if bool(t < xs[0]) or bool(t > xs[-1]):
            if bounds_error:
                raise ValueError("A value in x_new is outside the interpolation range.")
            i = 0 if bool(t < xs[0]) else n - 2
        else:
            i = n - 2
            for k in range(n - 1):
                if bool(t <= xs[k + 1]):
                    i = k
                    break
        w = (t - xs[i]) / (xs[i + 1] - xs[i])
        return np.array([ys[i][c] + (ys[i + 1][c] - ys[i][c]) * w for c in range(ys.shape[1])], dtype=object)
    return f


def install():
    import scipy.interpolate

    import classy_blocks.construct.curves.interpolators as IP
    from symx import api

    class _Interp:
        @staticmethod
        def interp1d(x, y, **kw):
            sx = api.CUR
            if sx is not None and sx.sym:
                return interp1d_model(x, y, **kw)
            return scipy.interpolate.interp1d(x, y, **kw)

        def __getattr__(self, name):
            return getattr(scipy.interpolate, name)

    class _Sc:
        interpolate = _Interp()
    IP.scipy = _Sc()
    from symx import shims
    IP.np = shims._NpFacade()
    META.setdefault("stubs", []).append("curves.interpolators: scipy.interpolate.interp1d (linear) -> piecewise-linear model")
    # --- scipy.optimize.minimize inside FunctionCurveBase.get_closest_param: descent contract ---
    import scipy.optimize

    import classy_blocks.construct.curves.curve as CU
    from symx import stubs_opt

    def contract_minimize(fun, x0, bounds=None, **kw):
        sx = api.CUR
        if sx is None or not sx.sym:
            return scipy.optimize.minimize(fun, x0, bounds=bounds, **kw)
        x0 = np.atleast_1d(np.asarray(x0, dtype=object))
        x = stubs_opt.fresh_vector(len(x0), [tuple(b) for b in bounds] if bounds is not None else None, "tmin")
        # the only thing a bounded descent method promises: inside the bounds, not worse than where it started
        sx.assume(fun(x) <= fun(x0), "minimize: f(result) <= f(x0)")
        return stubs_opt.Result(x)

    class _Opt:
        minimize = staticmethod(contract_minimize)

        def __getattr__(self, name):
            return getattr(scipy.optimize, name)

    class _Sc2:
        optimize = _Opt()
    CU.scipy = _Sc2()
    s2 = ("curves.curve: scipy.optimize.minimize (get_closest_param) -> descent contract: result inside the bounds with "
          "f(result) <= f(x0)")
    if s2 not in META["stubs"]:
        META["stubs"].append(s2)


def validate(seed):
    """stub validation: the interp1d model against scipy on concrete inputs"""
    import random

    import scipy.interpolate
    from symx import api, core
    rnd = random.Random(seed)
    n = 0
    for _ in range(20):
        core.Ctx.cur = core.Ctx()
        xs = sorted(rnd.uniform(0, 1) for _ in range(4))
        ys = [[rnd.uniform(-1, 1) for _ in range(3)] for _ in range(4)]
        real = scipy.interpolate.interp1d(xs, ys, axis=0)
        model = interp1d_model(core.lift_arr(xs), core.lift_arr(ys))
        for _ in range(5):
            t = rnd.uniform(xs[0], xs[-1])
            a, b = real(t), model(core.R(t))
            assert all(abs(float(b[c]) - a[c]) < 1e-9 for c in range(3)), ("interp1d", xs, t)
            n += 1
    core.Ctx.cur = None
    return {"interp1d": n}


def _s_curve(t):
    """an S-shaped polynomial curve: several local minima of the distance to a query point"""
    return np.array([t, t * t * t - 3 * t, 0 * t])


ANALYTIC_BOUNDS = {"-2..2": (-2, 2), "0..2": (0, 2), "1..3": (1, 3), "-3..-1": (-3, -1)}


def run_analytic_closest(sx, bounds):
    """FunctionCurveBase.get_closest_param = coarse guess over the discretisation + bounded minimiser. Under the descent
    contract of the minimiser the result is at least as good as every discretisation point, for every query point, iff the
    coarse guess is the parameter of the nearest discretisation point."""
    lo, hi = ANALYTIC_BOUNDS[bounds]
    curve = cb.AnalyticCurve(_s_curve, (lo, hi))
    tag = f"AnalyticCurve t -> (t, t^3 - 3t, 0) on [{lo}, {hi}]"
    # queries near the curve: on both sides of it, close (0.01 x |tangent|) and farther away (0.1 x |tangent|), at 17
    # unevenly spaced parameters; the query is chosen by the solver (fork), the minimiser's result is a symbolic real
    queries = []
    for k in range(17):
        tk = Fraction(lo) + Fraction(hi - lo) * Fraction(k * k + 3 * k, 16 * 16 + 3 * 16)
        px, py = tk, tk * tk * tk - 3 * tk
        tx, ty = Fraction(1), 3 * tk * tk - 3
        for eps in (Fraction(1, 100), Fraction(-1, 100), Fraction(1, 10), Fraction(-1, 10)):
            queries.append((px - eps * ty, py + eps * tx))
    qi = sx.choice("query", len(queries))
    q = sx.vec(queries[qi][0], queries[qi][1], 0)
    t = curve.get_closest_param(q)
    sx.reach("analytic")
    sx.prove(sx.all([t >= lo, t <= hi]), f"{tag}: the returned parameter is inside the bounds", "C16:analytic:closest:bounds")
    if sx.sym:
        from symx.shims import norm_model
        dist = norm_model(curve.get_point(t) - q)
        samples = [norm_model(p - q) for p in curve.discretize()]
    else:
        dist = float(np.linalg.norm(curve.get_point(t) - q))
        samples = [float(np.linalg.norm(p - q)) + 1e-7 for p in curve.discretize(count=400)]
    sx.prove(sx.all([dist <= d for d in samples]), f"{tag}: the returned parameter's point is at least as close to the query as "
             "every sampled point of the curve", "C16:analytic:closest", info={"query": [float(x) for x in queries[qi]]})
    return "analytic"


def _points(sx, n, sym=(1, 2)):
    pts = []
    for i in range(n):
        if i in sym:
            pts.append([sx.const(BASE[i][k]) + sx.real(f"p{i}{k}", -0.15, 0.15) for k in range(3)])
        else:
            pts.append([sx.const(x) for x in BASE[i]])
    return sx.arr(pts)


def _dist(sx, a, b):
    d = a - b
    s2 = d[0] * d[0] + d[1] * d[1] + d[2] * d[2]
    return s2.sqrt(nonneg=True) if sx.sym else math.sqrt(s2)


def _polylen(sx, pts):
    tot = 0
    for p, q in zip(pts[:-1], pts[1:]):
        tot = tot + _dist(sx, p, q)
    return tot


def _close3(sx, p, q, tol=1e-9):
    return sx.all([sx.close(a, b, tol) for a, b in zip(p, q)])


def run_discrete(sx):
    P = _points(sx, 4)
    curve = cb.DiscreteCurve(P)
    a, b = sx.choice("a", 4), sx.choice("b", 4)
    sx.reach("discrete")
    if a != b:
        try:
            d = curve.discretize(a, b)
            ok = len(d) == abs(a - b) + 1
        except Exception:
            d, ok = None, False
        sx.prove(ok, f"discretize({a},{b}) returns the points between the parameters", "C16:discrete:discretize-count",
                 info={"a": a, "b": b, "n": None if d is None else len(d)})
        if ok:
            sx.prove(sx.all([_close3(sx, d[0], P[a]), _close3(sx, d[-1], P[b])]),
                     f"discretize({a},{b}) starts at point({a}) and ends at point({b})", "C16:discrete:ends")
            lo, hi = min(a, b), max(a, b)
            try:
                L = curve.get_length(a, b)
            except Exception:
                L = None
            sx.prove(L is not None and sx.close(L, _polylen(sx, [P[i] for i in range(lo, hi + 1)]), 1e-9),
                     f"length({a},{b}) equals the polyline length between the parameters", "C16:discrete:length")
            m = sx.choice("m", 4)
            if lo < m < hi and L is not None:
                sx.prove_close(curve.get_length(a, m) + curve.get_length(m, b), L, "length is additive over a split",
                               key="C16:discrete:additive")
    sx.prove(_close3(sx, curve.get_point(a), P[a]), "get_point(i) is the i-th defining point", "C16:discrete:point")
    return "discrete"


def run_closest(sx):
    P = _points(sx, 4, sym=())
    curve = cb.DiscreteCurve(P)
    q = sx.vec(sx.real("qx", -1, 3), sx.real("qy", -1, 2), sx.real("qz", -1, 1))
    p = curve.get_closest_param(q)
    sx.reach("discrete")
    got = curve.get_point(p)
    d2 = lambda x: (x[0] - q[0]) * (x[0] - q[0]) + (x[1] - q[1]) * (x[1] - q[1]) + (x[2] - q[2]) * (x[2] - q[2])
    sx.prove(sx.all([d2(got) <= d2(P[i]) + sx.const(1e-12) for i in range(4)]),
             "get_closest_param returns a parameter whose point is at least as close to the query as every curve point",
             "C16:discrete:closest")
    return "closest"


def run_interpolated(sx, n, equalize=True):
    P = _points(sx, n, sym=())        # concrete, unevenly spaced points; the parameters are the symbolic part
    curve = cb.LinearInterpolatedCurve(P, equalize=equalize)
    params = curve.function.params
    sx.reach("interpolated")
    sx.prove(sx.all([_close3(sx, curve.get_point(params[i]), P[i], 1e-8) for i in range(n)]),
             "the interpolated curve passes through its defining points at its own parameters", "C16:interpolated:through-points")
    a, b = sx.real("a", 0, 1), sx.real("b", 0, 1)
    sx.assume(a + sx.const(1e-3) <= b, "a < b")
    pa, pb = curve.get_point(a), curve.get_point(b)
    d = curve.discretize(a, b, 5)
    sx.prove(sx.all([_close3(sx, d[0], pa, 1e-8), _close3(sx, d[-1], pb, 1e-8)]),
             "discretize(a,b) starts at point(a) and ends at point(b)", "C16:interpolated:ends")
    # length == polyline through all break points strictly between a and b
    inner = []
    for i in range(n):
        if bool(sx.all([params[i] > a, params[i] < b])):
            inner.append(P[i])
    want = _polylen(sx, [pa, *inner, pb])
    L = curve.get_length(a, b)
    sx.prove_close(L, want, "length(a,b) of the piecewise-linear curve equals the polyline through the break points between "
                   "a and b", tol=1e-7, key=f"C16:interpolated:length:{'equalized' if equalize else 'uniform'}")
    m = (a + b) / 2
    sx.prove_close(curve.get_length(a, m) + curve.get_length(m, b), L, "length is additive over a split", tol=1e-7,
                   key=f"C16:interpolated:additive:{'equalized' if equalize else 'uniform'}")
    # the parameters in the other order: the same piece of curve
    sx.prove_close(curve.get_length(b, a), L, "length(b,a) == length(a,b)", tol=1e-7,
                   key=f"C16:interpolated:length:reversed:{'equalized' if equalize else 'uniform'}")
    dr = curve.discretize(b, a, 5)
    sx.prove(sx.all([_close3(sx, dr[0], pb, 1e-8), _close3(sx, dr[-1], pa, 1e-8)]),
             "discretize(b,a) starts at point(b) and ends at point(a)", "C16:interpolated:ends:reversed")
    return "interpolated"


def run_interpolated_many_points(sx):
    """ground twin only (double rounding is invisible to exact arithmetic): interpolated curves through 9..24 unevenly
    spaced points end exactly at their last defining point - parameter 1 is inside the curve's range"""
    import random
    rnd = random.Random(20261004)
    sx.reach("interpolated")
    bad = []
    for case in range(80):
        n = rnd.randint(9, 24)
        pts = np.cumsum(np.array([[rnd.uniform(0.05, 2.0), rnd.uniform(-1, 1), rnd.uniform(-1, 1)] for _ in range(n)]), axis=0)
        for cls in (cb.LinearInterpolatedCurve, cb.SplineInterpolatedCurve):
            try:
                curve = cls(pts)
                end = np.asarray(curve.get_point(1), dtype=float)
                d = np.asarray(curve.discretize(), dtype=float)
                ok = bool(np.all(np.isfinite(end)) and np.linalg.norm(end - pts[-1]) < 1e-7 and np.linalg.norm(d[-1] - pts[-1]) < 1e-7
                          and np.linalg.norm(d[0] - pts[0]) < 1e-7 and np.isfinite(curve.length))
            except Exception as e:      # noqa
                ok = False
                end = f"{type(e).__name__}: {e}"[:100]
            if not ok:
                bad.append((case, n, cls.__name__, str(end)))
    sx.prove(not bad, "interpolated curves through many unevenly spaced points: point(1) and discretize() end at the last defining "
             "point, the length is finite", "C16:interpolated:end-point:many-points", info={"failures": bad[:4], "count": len(bad)})
    return "interpolated"


def run_line(sx):
    P = _points(sx, 2, sym=(0, 1))
    curve = cb.LineCurve(P[0], P[1], (-0.5, 1.5))
    a, b = sx.real("a", -0.5, 1.5), sx.real("b", -0.5, 1.5)
    sx.reach("line")
    d = curve.discretize(a, b, 4)
    sx.prove(sx.all([_close3(sx, d[0], curve.get_point(a)), _close3(sx, d[-1], curve.get_point(b))]),
             "LineCurve.discretize(a,b) starts at point(a) and ends at point(b) (either order)", "C16:line:ends")
    sx.prove(_close3(sx, curve.get_point(a), P[0] + (P[1] - P[0]) * a), "LineCurve.get_point(t) = p1 + t (p2 - p1)", "C16:line:point")
    return "line"


def run_line_length(sx):
    P = _points(sx, 2, sym=(0, 1))
    curve = cb.LineCurve(P[0], P[1], (-0.5, 1.5))
    a = sx.real("a", -0.5, 0.5)
    b = a + sx.real("w", 0.1, 1.0)
    m = (a + b) / 2
    sx.reach("line")
    L = curve.get_length(a, b)
    sx.prove_close(L, _dist(sx, P[0], P[1]) * (b - a), "LineCurve length(a,b) = |p2-p1| (b-a)", tol=1e-7, key="C16:line:length")
    sx.prove_close(curve.get_length(a, m) + curve.get_length(m, b), L, "LineCurve length is additive", tol=1e-7,
                   key="C16:line:additive")
    return "line"


def run_edge(sx):
    """an edge snapped to a discrete curve: points between the parameters of its two vertices, curve length between them"""
    P = _points(sx, 5, sym=(1, 3))
    i, j = sx.choice("i", 5), sx.choice("j", 5)
    if abs(i - j) < 2:
        return "skip"
    curve = cb.DiscreteCurve(P)
    v1 = Vertex(P[i] + sx.vec(0.01, -0.01, 0.005), 0)   # vertices near (not on) the curve points
    v2 = Vertex(P[j] + sx.vec(-0.01, 0.01, 0.005), 1)
    edge = factory.create(v1, v2, cb.OnCurve(curve))
    sx.reach("edge")
    try:
        pa = edge.point_array
        L = edge.length
        ok = True
    except Exception as e:
        pa, L, ok = None, None, False
        sx.note("exception", type(e).__name__)
    sx.prove(ok, f"curve-snapped edge {i}->{j}: point list and length can be computed", "C16:edge:computable", info={"i": i, "j": j})
    if not ok:
        return "edge"
    step = 1 if j > i else -1
    want = [P[k] for k in range(i + step, j, step)]
    sx.prove(len(pa) == len(want) and sx.all([_close3(sx, x, y) for x, y in zip(pa, want)]),
             f"curve-snapped edge {i}->{j} is written with the curve points between its two vertices, in that order",
             "C16:edge:points", info={"i": i, "j": j, "n": len(pa)})
    lo, hi = min(i, j), max(i, j)
    sx.prove_close(L, _polylen(sx, [P[k] for k in range(lo, hi + 1)]), "its length is the curve length between the two vertices",
                   key="C16:edge:length")
    # the second vertex slides along the curve (what an optimizer does); the edge is asked again
    j2 = j - step
    if abs(j2 - i) >= 1 and j2 != i:
        v2.move_to(P[j2] + sx.vec(-0.01, 0.01, 0.005))
        pa2, L2 = edge.point_array, edge.length
        want2 = [P[k] for k in range(i + step, j2, step)]
        sx.prove(len(pa2) == len(want2) and sx.all([_close3(sx, x, y) for x, y in zip(pa2, want2)]),
                 f"curve-snapped edge {i}->{j}, second vertex moved to curve point {j2}: written with the curve points between "
                 "its vertices' present positions", "C16:edge:points:after-move", info={"i": i, "j": j, "j2": j2, "n": len(pa2)})
        lo2, hi2 = min(i, j2), max(i, j2)
        sx.prove_close(L2, _polylen(sx, [P[k] for k in range(lo2, hi2 + 1)]), "after the move its length is the curve length "
                       "between the present vertex positions", key="C16:edge:length:after-move")
    return "edge"


def jobs(tier, seed):
    js = [{"name": "discrete", "fn": "run_discrete"}, {"name": "discrete|closest", "fn": "run_closest"},
          *[{"name": f"analytic|closest|bounds {b}", "fn": "run_analytic_closest", "params": {"bounds": b}}
            for b in (ANALYTIC_BOUNDS if tier == "thorough" else ["-2..2", "1..3"])],
          {"name": "interpolated|9-24 points|ground twin only", "fn": "run_interpolated_many_points", "symbolic": False},
          {"name": "line", "fn": "run_line"}, {"name": "line|length", "fn": "run_line_length"}, {"name": "edge-on-discrete-curve", "fn": "run_edge"}]
    for n in ((3,) if tier == "quick" else (3, 4)):
        for eq in (True, False):
            js.append({"name": f"interpolated|n={n}|equalize={eq}", "fn": "run_interpolated", "params": {"n": n, "equalize": eq}})
    for j in js:
        j["budget_s"] = 280 if tier == "quick" else 1500
        j["timeout_ms"] = 20000 if tier == "quick" else 90000
    return js
