"""C19 - grid, slice and core/shell addressing of shapes and stacks is geometric."""
from fractions import Fraction

import numpy as np

import classy_blocks as cb

PROPERTY = "C19"
META = {
    "explanation": "Stacks are built on a cartesian Grid whose two corner points and height are symbolic reals; indices "
                   "(i, j, k), the slice (axis, index) and the operation to delete are solver-chosen (fork on value). z3 "
                   "shows that stack.grid[k][j][i] is the operation whose centre is at column i, row j, tier k, that "
                   "get_slice returns exactly the operations with that index along the axis, each once, and that "
                   "deleting an addressed operation removes exactly the hex at that location from the assembled mesh. "
                   "Round shapes and disk sketches are built under a symbolic similarity (scale, translation): core and "
                   "shell partition the operations, and an operation is in the shell iff one of its corners lies on "
                   "the outer radius (squared-distance comparison).",
    "bounds": {"grid sizes": "nx, ny in 1..3, nz in 1..2 (quick); up to 4 x 4 x 3 (thorough)", "extents": "symbolic, positive",
               "round shapes": "Cylinder, SemiCylinder, Frustum, ExtrudedRing with symbolic scale k in [0.1, 10] and translation"},
    "outside": ["grid sizes above the bound", "round shapes in rotated placements (C11 lifts those)", "RevolvedRing, Elbow, "
                "Hemisphere, Shell (thorough tier only where listed)"],
    "assumptions": [],
    "must_reach": ["stack", "round"],
}


def _stack(sx, nx, ny, nz, kind="extruded"):
    x1, y1 = sx.real("x1", -5, 5), sx.real("y1", -5, 5)
    dx, dy, h = sx.real("dx", 0.3, 6), sx.real("dy", 0.3, 6), sx.real("h", 0.3, 6)
    grid = cb.Grid([x1, y1, 0], [x1 + dx, y1 + dy, 0], nx, ny)
    if kind == "extruded":
        stack = cb.ExtrudedStack(grid, [0 * h, 0 * h, h], nz)
    else:
        stack = cb.TransformedStack(grid, [cb.Translation([0 * h, 0 * h, h / nz])], nz)
    return stack, (x1, y1, dx, dy, h)


def _expected_center(sx, geo, nx, ny, nz, i, j, k):
    x1, y1, dx, dy, h = geo
    return [x1 + dx * sx.const(Fraction(2 * i + 1, 2 * nx)), y1 + dy * sx.const(Fraction(2 * j + 1, 2 * ny)),
            h * sx.const(Fraction(2 * k + 1, 2 * nz))]


def _close3(sx, p, q, tol=1e-9):
    return sx.all([sx.close(a, b, tol) for a, b in zip(p, q)])


def run_grid(sx, nx, ny, nz, kind="extruded"):
    stack, geo = _stack(sx, nx, ny, nz, kind)
    i, j, k = sx.choice("i", nx), sx.choice("j", ny), sx.choice("k", nz)
    sx.reach("stack")
    op = stack.grid[k][j][i]
    sx.prove(_close3(sx, op.center, _expected_center(sx, geo, nx, ny, nz, i, j, k)),
             f"{nx}x{ny}x{nz} {kind} stack: grid[k][j][i] is the operation in column i, row j, tier k", f"C19:grid-index:{kind}",
             info={"ijk": [i, j, k]})
    sx.prove(len(stack.grid) == nz and all(len(t) == ny and all(len(r) == nx for r in t) for t in stack.grid),
             "stack.grid has tiers x rows x columns", f"C19:grid-shape:{kind}")
    return "grid"


def run_slice(sx, nx, ny, nz):
    stack, geo = _stack(sx, nx, ny, nz)
    axis = sx.choice("axis", 3)
    n = (nx, ny, nz)[axis]
    index = sx.choice("index", n)
    sx.reach("stack")
    got = stack.get_slice(axis, index)
    want = []
    for k in range(nz):
        for j in range(ny):
            for i in range(nx):
                if (i, j, k)[axis] == index:
                    want.append((i, j, k))
    sx.prove(len(got) == len(want), f"get_slice({axis}, {index}) of a {nx}x{ny}x{nz} stack returns {len(want)} operations",
             "C19:slice:count", info={"got": len(got)})
    sx.prove(len({id(o) for o in got}) == len(got), "get_slice returns every operation once", "C19:slice:distinct")
    # every returned operation has the requested index along the axis: match centres against the expected set
    conds = []
    for (i, j, k) in want:
        c = _expected_center(sx, geo, nx, ny, nz, i, j, k)
        conds.append(sx.any([_close3(sx, o.center, c) for o in got]))
    sx.prove(sx.all(conds), f"get_slice({axis}, {index}) returns exactly the operations with that index along the axis",
             f"C19:slice:members:axis{axis}")
    # asking is not changing: the same question again, another slice, the grid and the operation list are as before
    again = stack.get_slice(axis, index)
    other = stack.get_slice(2, 0)
    dims = [[len(r) for r in t] for t in stack.grid]
    sx.prove(len(again) == len(want) and all(a is b for a, b in zip(again, got)) and len(other) == nx * ny
             and dims == [[nx] * ny] * nz and len(stack.operations) == nx * ny * nz,
             f"get_slice({axis}, {index}) leaves the stack as it was (same answer again, tier 0 still {nx * ny} operations, grid "
             f"{nz}x{ny}x{nx}, {nx * ny * nz} operations)", f"C19:slice:pure:axis{axis}",
             info={"again": len(again), "tier0": len(other), "grid": dims, "operations": len(stack.operations)})
    return "slice"


def run_delete(sx, nx, ny, nz):
    stack, geo = _stack(sx, nx, ny, nz)
    i, j, k = sx.choice("i", nx), sx.choice("j", ny), sx.choice("k", nz)
    mesh = cb.Mesh()
    mesh.add(stack)
    # the deletion comes before the first assembly or (solver's choice) after it, followed by a re-assembly and a
    # back-port (what an optimiser run ends with)
    late = sx.flag("deleted_after_first_assembly")
    if late:
        mesh.assemble()
        mesh.delete(stack.grid[k][j][i])
        mesh.clear()
        mesh.assemble()
        mesh.backport()
    else:
        mesh.delete(stack.grid[k][j][i])
        mesh.assemble()
    sx.reach("stack")
    sx.prove(len(mesh.blocks) == nx * ny * nz - 1, "deleting one addressed operation removes exactly one block",
             "C19:delete:count", info={"blocks": len(mesh.blocks)})
    centres = []
    for b in mesh.blocks:
        acc = b.vertices[0].position
        for v in b.vertices[1:]:
            acc = acc + v.position
        centres.append(acc / 8)
    gone = _expected_center(sx, geo, nx, ny, nz, i, j, k)
    sx.prove(sx.all([sx.neg(_close3(sx, c, gone, 1e-6)) for c in centres]), "the block at the addressed location is gone",
             "C19:delete:location")
    conds = []
    for kk in range(nz):
        for jj in range(ny):
            for ii in range(nx):
                if (ii, jj, kk) != (i, j, k):
                    c = _expected_center(sx, geo, nx, ny, nz, ii, jj, kk)
                    conds.append(sx.any([_close3(sx, x, c) for x in centres]))
                    conds.append(_close3(sx, stack.grid[kk][jj][ii].center, c))
    sx.prove(sx.all(conds), "every other location still has its block, and grid[k][j][i] is still the operation at that location",
             "C19:delete:others")
    return "delete"


def run_round(sx, shape):
    k = sx.real("k", Fraction(1, 10), 10)
    t = sx.vec(sx.real("tx", -20, 20), sx.real("ty", -20, 20), sx.real("tz", -20, 20))

    def P(x, y, z):
        return t + sx.vec(x, y, z) * k
    r = 1.0
    if shape == "Cylinder":
        s = cb.Cylinder(P(0, 0, 0), P(0, 0, 2), P(r, 0, 0))
    elif shape == "SemiCylinder":
        s = cb.SemiCylinder(P(0, 0, 0), P(0, 0, 2), P(r, 0, 0))
    elif shape == "Frustum":
        s = cb.Frustum(P(0, 0, 0), P(0, 0, 2), P(r, 0, 0), k * 0.5)
    elif shape == "ExtrudedRing":
        s = cb.ExtrudedRing(P(0, 0, 0), P(0, 0, 2), P(r, 0, 0), k * 0.4)
    else:
        raise KeyError(shape)
    sx.reach("round")
    ops = s.operations
    core, shell = list(s.core), list(s.shell)        # (a ring has no core: the list must be empty, not missing or the shell)
    sx.prove(len(core) + len(shell) == len(ops) and not ({id(o) for o in core} & {id(o) for o in shell})
             and {id(o) for o in core} | {id(o) for o in shell} == {id(o) for o in ops},
             f"{shape}: core and shell partition the operations", f"C19:core-shell:partition:{shape}",
             info={"core": len(core), "shell": len(shell), "ops": len(ops)})
    # an operation touches the outer surface iff one of its bottom corners is at distance k*r from the axis
    r2 = k * k * sx.const(r * r)

    def on_rim(p):
        d = p - t
        return sx.close((d[0] * d[0] + d[1] * d[1]) / (k * k), r * r, 1e-6)

    def touches(op):
        return sx.any([on_rim(pt.position) for pt in op.bottom_face.points])
    sx.prove(sx.all([touches(op) for op in shell]), f"{shape}: every shell operation touches the outer surface",
             f"C19:core-shell:shell:{shape}")
    sx.prove(sx.all([sx.neg(touches(op)) for op in core]), f"{shape}: no core operation touches the outer surface",
             f"C19:core-shell:core:{shape}")
    return shape


def run_disk(sx, kind):
    k = sx.real("k", Fraction(1, 10), 10)
    t = sx.vec(sx.real("tx", -20, 20), sx.real("ty", -20, 20), sx.real("tz", -20, 20))
    cls = {"OneCoreDisk": cb.OneCoreDisk, "FourCoreDisk": cb.FourCoreDisk, "HalfDisk": cb.HalfDisk}[kind]
    sk = cls(t, t + sx.vec(1, 0, 0) * k, [0, 0, 1])
    sx.reach("round")
    faces = sk.faces
    core, shell = list(sk.core), list(sk.shell)
    sx.prove(len(core) + len(shell) == len(faces) and sk.grid[0] == core and sk.grid[-1] == shell,
             f"{kind}: grid = [core faces, shell faces] and they partition the faces", f"C19:disk:partition:{kind}")

    def on_rim(p):
        d = p - t
        return sx.close((d[0] * d[0] + d[1] * d[1]) / (k * k), 1.0, 1e-6)
    sx.prove(sx.all([sx.any([on_rim(p.position) for p in f.points]) for f in shell]),
             f"{kind}: every shell face touches the outer radius", f"C19:disk:shell:{kind}")
    sx.prove(sx.all([sx.neg(sx.any([on_rim(p.position) for p in f.points])) for f in core]),
             f"{kind}: no core face touches the outer radius", f"C19:disk:core:{kind}")
    return kind


SKETCHES = ["OneCoreDisk", "FourCoreDisk", "HalfDisk", "WrappedDisk", "Oval", "Grid", "QuarterSplineDisk", "HalfSplineDisk",
            "SplineDisk", "QuarterSplineRing", "HalfSplineRing", "SplineRing"]


def run_lofted(sx, kind):
    """shapes lofted from a sketch: shape.grid[i][j] is the operation that stands on sketch.grid[i][j] - bottom face on that
    face, top face on its image in the end sketch - and core/shell of disk-like shapes follow the sketch's core/shell"""
    k = sx.real("k", Fraction(1, 10), 10)
    t = sx.vec(sx.real("tx", -20, 20), sx.real("ty", -20, 20), sx.real("tz", -20, 20))

    def P(x, y, z):
        return t + sx.vec(x, y, z) * k
    if kind == "WrappedDisk":
        sk, n = cb.WrappedDisk(P(0, 0, 0), P(2, 2, 0), k * 1.0, [0, 0, 1]), [0, 0, 1]
    elif kind == "Oval":
        sk, n = cb.Oval(P(0, 0, 0), P(2, 0, 0), [0, 0, 1], k * 1.0), [0, 0, 1]
    elif kind == "Grid":
        sk, n = cb.Grid(P(0, 0, 0), P(2, 3, 0), 2, 3), [0, 0, 1]
    elif "Spline" in kind:
        args = [P(0, 0, 0), P(0, 1, 0), P(0, 0, 2), k * 0.3, k * 0.5]
        if "Ring" in kind:
            args += [k * 0.1, k * 0.3]
        sk, n = getattr(cb, kind)(*args), [1, 0, 0]
    else:
        sk, n = getattr(cb, kind)(P(0, 0, 0), P(1, 0, 0), [0, 0, 1]), [0, 0, 1]
    d = sx.vec(*n) * (k * 1.5)
    shape = cb.ExtrudedShape(sk, d)
    sx.reach("round")
    g, sg = shape.grid, sk.grid
    same_shape = len(g) == len(sg) and all(len(a) == len(b) for a, b in zip(g, sg))
    sx.prove(same_shape and sum(len(r) for r in g) == len(shape.operations) == len(sk.faces),
             f"ExtrudedShape({kind}): the shape's grid has the sketch's grid layout and holds every operation once",
             f"C19:lofted:layout:{kind}", info={"shape": [len(r) for r in g], "sketch": [len(r) for r in sg]})
    if not same_shape:
        return kind
    conds_b, conds_t = [], []
    for i, row in enumerate(g):
        for j, op in enumerate(row):
            face = sg[i][j]
            for c in range(4):
                want = face.points[c].position
                conds_b.append(_close3(sx, (op.bottom_face.points[c].position - t) / k, (want - t) / k, 1e-8))
                conds_t.append(_close3(sx, (op.top_face.points[c].position - t) / k, (want + d - t) / k, 1e-8))
    sx.prove(sx.all(conds_b), f"ExtrudedShape({kind}): grid[i][j] stands on sketch.grid[i][j]", f"C19:lofted:bottom:{kind}")
    sx.prove(sx.all(conds_t), f"ExtrudedShape({kind}): the top face of grid[i][j] is the image of sketch.grid[i][j] in the end "
             "sketch", f"C19:lofted:top:{kind}")
    if kind != "Grid" and getattr(sk, "core", None) and getattr(sk, "shell", None):
        on = lambda faces: [op for i, row in enumerate(g) for j, op in enumerate(row) if any(sg[i][j] is f for f in faces)]
        core_ops, shell_ops = on(sk.core), on(sk.shell)
        sx.prove(len(g[0]) == len(sk.core) and all(any(o is c for c in core_ops) for o in g[0])
                 and len(g[-1]) == len(sk.shell) and all(any(o is c for c in shell_ops) for o in g[-1]),
                 f"ExtrudedShape({kind}): grid[0] are the operations on the sketch's core faces, grid[-1] those on its shell",
                 f"C19:lofted:core-shell:{kind}")
    return kind


def jobs(tier, seed):
    js = []

    def add(fn, jobname, **p):
        js.append({"name": jobname, "fn": fn, "params": p, "budget_s": 280 if tier == "quick" else 1500})

    sizes = [(2, 3, 2), (3, 1, 2), (1, 2, 1), (3, 2, 1)] if tier == "quick" else \
        [(a, b, c) for a in (1, 2, 3, 4) for b in (1, 2, 3, 4) for c in (1, 2, 3) if a != b or a == 1]
    for (nx, ny, nz) in sizes:
        add("run_grid", f"grid|{nx}x{ny}x{nz}", nx=nx, ny=ny, nz=nz)
        add("run_slice", f"slice|{nx}x{ny}x{nz}", nx=nx, ny=ny, nz=nz)
    add("run_grid", "grid|2x3x2|transformed", nx=2, ny=3, nz=2, kind="transformed")
    add("run_delete", "delete|2x3x2", nx=2, ny=3, nz=2)
    add("run_delete", "delete|3x1x2", nx=3, ny=1, nz=2)
    for shape in ("Cylinder", "SemiCylinder", "Frustum", "ExtrudedRing"):
        add("run_round", f"round|{shape}", shape=shape)
    for kind in ("OneCoreDisk", "FourCoreDisk", "HalfDisk"):
        add("run_disk", f"disk|{kind}", kind=kind)
    for kind in SKETCHES:
        add("run_lofted", f"lofted|{kind}", kind=kind)
    return js
