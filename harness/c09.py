"""C09 - transforming or copying an entity equals transforming its output geometry."""
from fractions import Fraction

import math

import numpy as np

import classy_blocks as cb
from classy_blocks.base import transforms as tr
from classy_blocks.construct.array import Array
from classy_blocks.construct.point import Point
from classy_blocks.util import functions as f

PROPERTY = "C09"
META = {
    "explanation": "Each entity is built twice from the same symbolic points; one copy is transformed by the library "
                   "(method call or transform([...])), both are reduced to their output geometry (positions, direction "
                   "vectors, lengths; for operations after the real Mesh.assemble), and z3 must show that the geometry of "
                   "the transformed entity equals the affine map - written in the harness from first principles - applied "
                   "to the geometry of the untransformed one.",
    "bounds": {"points": "symbolic offsets in [-0.3,0.3] around fixed base points", "displacement/origin": "free reals in "
               "[-5,5]^3 (origin non-zero unless stated)", "ratio": "(0.2, 5)", "rotation": "pinned rational rotations: axis "
               "(1,2,2) non-unit, (cos,sin) in {(3/5,4/5), (-7/25,24/25)}", "mirror normal": "symbolic non-unit 3-vector for "
               "points/arrays, pinned non-unit (1,2,2)*3/2 for composites", "compositions": "<= 2 transformations"},
    "outside": ["Shear", "spline-interpolated curves (scipy splprep/splev are compiled code) and analytic curves other than LineCurve", "rotations outside the pinned set",
                "compositions of 3 transformations"],
    "assumptions": ["mirror normal has squared length >= 0.01", "scale ratio > 0"],
    "must_reach": ["compare"],
}

AXIS = (1, 2, 2)
PINS = {"a": (1, Fraction(3, 5), Fraction(4, 5)), "b": (1, Fraction(-7, 25), Fraction(24, 25))}


# ---- affine maps written from first principles ---------------------------------------------------
def _dot(a, b):
    return a[0] * b[0] + a[1] * b[1] + a[2] * b[2]


def _cross(a, b):
    return np.array([a[1] * b[2] - a[2] * b[1], a[2] * b[0] - a[0] * b[2], a[0] * b[1] - a[1] * b[0]], dtype=object)


class Affine:
    """x -> L(x - o) + o + d with L given as a function on vectors; also how directions and lengths map"""

    def __init__(self, kind, lin, origin, disp, ratio=1):
        self.kind, self.lin, self.origin, self.disp, self.ratio = kind, lin, origin, disp, ratio

    def point(self, x):
        return self.lin(x - self.origin) + self.origin + self.disp

    def direction(self, v):
        # directions (unit axes) are rotated / reflected, never displaced and never scaled
        return v if self.kind == "scale" else self.lin(v)


def make_rotation(sx, pin, origin):
    m, c, s = PINS[pin]
    theta = sx.angle(f"theta_{pin}", m, c, s)
    n = np.array([Fraction(a, 3) for a in AXIS], dtype=object) if sx.sym else np.array(AXIS, dtype=float) / 3.0
    cc, ss = (sx.const(c), sx.const(s))

    def lin(v):
        # Rodrigues, written out: v cos + (n x v) sin + n (n.v)(1 - cos)
        nv = _dot(n, v)
        cr = _cross(n, v)
        return np.array([v[i] * cc + cr[i] * ss + n[i] * nv * (1 - cc) for i in range(3)], dtype=object if sx.sym else float)

    return theta, Affine("rotate", lin, origin, origin * 0, 1)


def make_mirror(sx, normal, origin):
    nn = _dot(normal, normal)

    def lin(v):
        k = 2 * _dot(v, normal) / nn
        return np.array([v[i] - k * normal[i] for i in range(3)], dtype=object if sx.sym else float)

    return Affine("mirror", lin, origin, origin * 0, 1)


def make_scale(sx, ratio, origin):
    return Affine("scale", lambda v: v * ratio, origin, origin * 0, ratio)


def make_translate(sx, d):
    return Affine("translate", lambda v: v, d * 0, d, 1)


# ---- entities --------------------------------------------------------------------------------------
BASE = {
    "p": [(0.3, -0.2, 0.7)],
    "tri": [(0.0, 0.0, 0.0), (1.0, 0.2, 0.1), (1.7, 1.1, -0.3)],
    "quad": [(0, 0, 0), (1, 0, 0), (1, 1, 0), (0, 1, 0)],
}


def sym_points(sx, name, base, nsym):
    """base points + symbolic offsets on the first `nsym` coordinates (row-major)"""
    pts = []
    k = 0
    for i, p in enumerate(base):
        row = []
        for j, c in enumerate(p):
            if k < nsym:
                row.append(sx.const(c) + sx.real(f"{name}{i}{j}", -0.3, 0.3))
            else:
                row.append(sx.const(c))
            k += 1
        pts.append(row)
    return sx.arr(pts)


def _mid(a, b, bump):
    return (a + b) / 2 + bump


class Ent:
    """entity description: build(sx, P) -> entity ; geom(entity) -> [(kind, name, value)]"""


def build_entity(sx, kind, P):
    if kind == "point":
        return Point(P["p"][0])
    if kind == "array":
        return Array(P["tri"])
    if kind == "arc":
        return cb.Arc(P["p"][0])
    if kind == "origin":
        return cb.Origin(P["p"][0])
    if kind == "angle":
        return cb.Angle(1.0, [2, -1, 2])
    if kind == "spline":
        return cb.Spline(P["tri"])
    if kind == "polyline":
        return cb.PolyLine(P["tri"])
    if kind == "discrete":
        return cb.DiscreteCurve(P["tri"])
    if kind == "linecurve":
        return cb.LineCurve(P["tri"][0], P["tri"][2])
    if kind == "lininterp":
        return cb.LinearInterpolatedCurve(P["tri"], equalize=False)
    if kind == "face":
        q = P["quad"]
        bump = sx.vec(0.0, -0.2, 0.1)
        return cb.Face(q, [cb.Arc(_mid(q[0], q[1], bump)), None,
                           cb.PolyLine([_mid(q[2], q[3], bump), _mid(q[2], q[3], bump * 2) + sx.vec(-0.2, 0, 0)]), None])
    if kind in ("loft", "loft-angle"):
        q = P["quad"]
        bump = sx.vec(0.0, -0.2, 0.1)
        top = [p + sx.vec(0.1, 0.2, 1.0) for p in q]
        bottom = cb.Face(q, [cb.Arc(_mid(q[0], q[1], bump)), None, None, None])
        loft = cb.Loft(bottom, cb.Face(top))
        if kind == "loft":
            loft.add_side_edge(1, cb.Spline([_mid(q[1], top[1], bump), _mid(q[1], top[1], bump * 2) + sx.vec(0, 0, 0.2)]))
            loft.add_side_edge(2, cb.Origin(_mid(q[2], top[2], sx.vec(3.0, -1.5, 0.0))))  # bump is perpendicular to the chord
        else:
            loft.add_side_edge(3, cb.Angle(0.8, [2, -1, 0]))  # axis perpendicular to the chord (0.1, 0.2, 1)
        return loft
    if kind == "revolve":
        q = P["quad"]
        return cb.Revolve(cb.Face(q), 0.7, [0, 1, 0], [-2.0, 0, 0.5])
    if kind == "extrude":
        return cb.Extrude(cb.Face(P["quad"]), [0.2, 0.1, 1.5])
    raise KeyError(kind)


POINTSETS = {"point": "p", "arc": "p", "origin": "p", "angle": "p", "array": "tri", "spline": "tri", "polyline": "tri",
             "discrete": "tri", "linecurve": "tri", "lininterp": "tri", "face": "quad", "loft": "quad", "loft-angle": "quad",
             "revolve": "quad", "extrude": "quad"}
OPERATIONS = ("loft", "loft-angle", "revolve", "extrude")


def geometry(sx, kind, e, swap=False):
    """output geometry as a list of (type, name, value); type in {pt, pts, dir, len}"""
    g = []
    if kind == "point":
        g.append(("pt", "position", e.position))
    elif kind == "array":
        g.append(("pts", "points", e.points))
        g.append(("pt", "center", e.center))
    elif kind == "arc":
        g.append(("pt", "arc point", e.point.position))
    elif kind == "origin":
        g.append(("pt", "origin", e.origin.position))
    elif kind == "angle":
        g.append(("dir", "axis", e.axis.components))
    elif kind in ("spline", "polyline", "discrete"):
        c = e.curve if kind != "discrete" else e
        g.append(("pts", "curve points", c.discretize()))
        g.append(("len", "curve length", c.length))
    elif kind == "lininterp":
        # (break points at 0, 1/2, 1: parameters are exact dyadic rationals)
        for t in (0, 0.25, 0.5, 0.875, 1):
            g.append(("pt", f"point({t})", e.get_point(t)))
        g.append(("pts", "discretize(count=5)", e.discretize(count=5)))
        g.append(("len", "length", e.length))
        g.append(("len", "length(0.25..0.875)", e.get_length(0.25, 0.875)))
    elif kind == "linecurve":
        g.append(("pt", "point(0)", e.get_point(0)))
        g.append(("pt", "point(0.3)", e.get_point(0.3)))
        g.append(("pt", "point(1)", e.get_point(1)))
    elif kind == "face":
        g.append(("pts", "points", e.point_array))
        g.append(("pt", "center", e.center))
        g.append(("pt", "edge0 arc point", e.edges[0].point.position))
        g.append(("pts", "edge2 polyline", e.edges[2].curve.discretize()))
    elif kind in OPERATIONS:
        mesh = cb.Mesh()
        mesh.add(e)
        mesh.assemble()
        blk = mesh.blocks[0]
        order = list(range(8))
        if swap:
            order = [4, 5, 6, 7, 0, 1, 2, 3]   # Operation.mirror() swaps bottom and top face
        g.append(("pts", "vertices", np.array([blk.vertices[i].position for i in order])))
        inv = {c: k for k, c in enumerate(order)}
        for c1 in range(8):
            for c2, wire in blk.wires[c1].items():
                if c2 < c1 or wire.edge.kind == "line":
                    continue
                ed = wire.edge
                nm = f"edge {inv[c1]}-{inv[c2]} ({ed.kind})" if not swap else f"edge {sorted((inv[c1], inv[c2]))} ({ed.kind})"
                nm = f"edge {sorted((inv[c1], inv[c2]))} ({ed.kind})"
                if ed.kind in ("arc", "origin", "angle"):
                    g.append(("pt", nm + " third point", ed.third_point.position))
                    if ed.kind != "angle" or True:
                        g.append(("len", nm + " length", ed.length))
                elif ed.kind in ("spline", "polyLine"):
                    pa = ed.point_array
                    if swap and False:
                        pa = pa[::-1]
                    g.append(("ptset", nm + " points", pa))
                    g.append(("len", nm + " length", ed.length))
        g.sort(key=lambda t: t[1])
    else:
        raise KeyError(kind)
    return g


def apply_transform(sx, kind, e, spec, via_list):
    """spec = (tkind, args) ; returns the entity (same instance)"""
    tk, a = spec
    if via_list:
        t = {"translate": lambda: tr.Translation(a["d"]),
             "rotate": lambda: tr.Rotation(a["axis"], a["theta"], a["origin"]),
             "scale": lambda: tr.Scaling(a["ratio"], a["origin"]),
             "mirror": lambda: tr.Mirror(a["normal"], a["origin"])}[tk]()
        import warnings

        with warnings.catch_warnings():
            warnings.simplefilter("ignore")
            return e.transform([t])
    if tk == "translate":
        return e.translate(a["d"])
    if tk == "rotate":
        return e.rotate(a["theta"], a["axis"], a["origin"])
    if tk == "scale":
        return e.scale(a["ratio"], a["origin"])
    if tk == "mirror":
        return e.mirror(a["normal"], a["origin"])
    raise KeyError(tk)


def _compare(sx, kind, tag, g1, g2, A, key_extra=""):
    sx.reach("compare")
    names1 = [x[1] for x in g1]
    names2 = [x[1] for x in g2]
    sx.prove(names1 == names2, f"{tag}: transformed entity has the same set of geometry items",
             f"C09:{kind}:{A.kind}:items{key_extra}", info={"before": names1, "after": names2})
    if names1 != names2:
        return
    for (t, name, v1), (_, _, v2) in zip(g1, g2):
        key = f"C09:{kind}:{A.kind}:{t}{key_extra}"
        lab = f"{tag}: {name}"
        if t == "pt":
            sx.prove_vec_close(v2, A.point(np.asarray(v1)), lab + " == map(point)", key=key)
        elif t == "pts":
            want = np.array([A.point(np.asarray(p)) for p in v1])
            sx.prove_vec_close(np.asarray(v2), want, lab + " == map(points)", key=key)
        elif t == "ptset":
            want = np.array([A.point(np.asarray(p)) for p in v1])
            fwd = sx.all([sx.close(x, y, 1e-9) for x, y in zip(np.asarray(v2).ravel(), want.ravel())])
            bwd = sx.all([sx.close(x, y, 1e-9) for x, y in zip(np.asarray(v2).ravel(), want[::-1].ravel())])
            sx.prove(sx.any([fwd, bwd]), lab + " == map(points) (either direction)", key)
        elif t == "dir":
            sx.prove_vec_close(v2, A.direction(np.asarray(v1)), lab + " == linear part applied (direction, not displaced)",
                               key=key)
        elif t == "len":
            sx.prove_close(v2, v1 * A.ratio, lab + " == ratio * length", key=key)


def run(sx, kind, tkind, nsym=3, via_list=False, pin="a", origin_mode="sym", normal_mode="sym"):
    P1 = {POINTSETS[kind]: sym_points(sx, "x", BASE[POINTSETS[kind]], nsym)}
    # second, independently constructed copy from the same symbols
    P2 = {k: np.array(v, dtype=v.dtype) for k, v in P1.items()}
    e1 = build_entity(sx, kind, P1)
    e2 = build_entity(sx, kind, P2)
    if origin_mode == "sym":
        o = sx.vec(sx.real("ox", -5, 5), sx.real("oy", -5, 5), sx.real("oz", -5, 5))
    elif origin_mode == "pinned":
        o = sx.vec(1.5, -2.0, 0.5)
    else:
        o = sx.vec(0, 0, 0)
    if tkind == "translate":
        d = sx.vec(sx.real("dx", -5, 5), sx.real("dy", -5, 5), sx.real("dz", -5, 5))
        A = make_translate(sx, d)
        spec = ("translate", {"d": d})
    elif tkind == "rotate":
        theta, A = make_rotation(sx, pin, o)
        spec = ("rotate", {"theta": theta, "axis": list(AXIS), "origin": o})
    elif tkind == "scale":
        ratio = sx.real("ratio", 0.2, 5)
        A = make_scale(sx, ratio, o)
        spec = ("scale", {"ratio": ratio, "origin": o})
    else:
        if normal_mode == "sym":
            n = sx.vec(sx.real("nx", -3, 3), sx.real("ny", -3, 3), sx.real("nz", -3, 3))
            sx.assume(_dot(n, n) >= sx.const(0.01), "mirror normal has squared length >= 0.01")
        else:
            n = sx.vec(1.5, 3.0, 3.0)
        A = make_mirror(sx, n, o)
        spec = ("mirror", {"normal": n, "origin": o})
    g1 = geometry(sx, kind, e1)
    # helpers must not modify the arrays passed to them
    before = {k: np.array(v, dtype=v.dtype) for k, v in spec[1].items() if isinstance(v, np.ndarray)}
    apply_transform(sx, kind, e2, spec, via_list)
    for k, v in before.items():
        sx.prove_vec_close(spec[1][k], v, f"{kind}.{tkind}: argument array '{k}' is not modified",
                           key=f"C09:{kind}:{tkind}:argument-mutated:{k}")
    if via_list and kind in OPERATIONS and tkind == "mirror":
        # documented (the library warns about it): a Mirror in a transformation list leaves an Operation inside-out and
        # "use Operation.invert() to put it back in shape"; with that step the list equals the method call
        e2.invert()
    swap = kind in OPERATIONS and tkind == "mirror"
    g2 = geometry(sx, kind, e2, swap=swap)
    tag = f"{kind}.{'transform([' + tkind + '])' if via_list else tkind}"
    _compare(sx, kind, tag, g1, g2, A, ":list" if via_list else "")
    # the untransformed twin must be untouched (independence of the two constructions)
    g1b = geometry(sx, kind, e1)
    _unchanged(sx, g1, g1b, f"{tag}: the other entity built from the same points is unchanged",
               f"C09:{kind}:{tkind}:aliasing")
    return f"{kind}.{tkind}"


def _unchanged(sx, ga, gb, label, key):
    conds = []
    for a, b in zip(ga, gb):
        va, vb = np.asarray(a[2]), np.asarray(b[2])
        if va.shape != vb.shape:
            conds.append(False)
            continue
        conds += [sx.close(x, y, 1e-9) for x, y in zip(va.ravel(), vb.ravel())]
    sx.prove(sx.all(conds), label, key)


def _same(a, b):
    if hasattr(a, "p") and hasattr(b, "p"):
        return a.p == b.p
    return a == b


def _same_val(a, b):
    a, b = np.asarray(a), np.asarray(b)
    if a.shape != b.shape:
        return False
    return all(_same(x, y) for x, y in zip(a.ravel(), b.ravel()))


def run_copy(sx, kind, nsym=3):
    """copy() is equivalent and independent: moving every point of the copy leaves the original's geometry unchanged"""
    P1 = {POINTSETS[kind]: sym_points(sx, "x", BASE[POINTSETS[kind]], nsym)}
    e1 = build_entity(sx, kind, P1)
    g0 = geometry(sx, kind, e1)
    e2 = e1.copy()
    gc = geometry(sx, kind, e2)
    sx.reach("compare")
    ident = Affine("copy", lambda v: v, 0, 0, 1)
    ident.point = lambda x: x
    _compare(sx, kind, f"{kind}.copy()", g0, gc, ident)
    d = sx.vec(sx.real("dx", -5, 5), sx.real("dy", -5, 5), sx.real("dz", -5, 5))
    e2.translate(d)
    g1 = geometry(sx, kind, e1)
    _unchanged(sx, g0, g1, f"{kind}.copy(): translating the copy leaves the original unchanged",
               f"C09:{kind}:copy:independent")
    A = make_translate(sx, d)
    g2 = geometry(sx, kind, e2)
    _compare(sx, kind, f"{kind}.copy().translate", g0, g2, A, ":copy")
    # the other direction: a copy that is left alone does not follow the original
    e3 = e1.copy()
    g3 = geometry(sx, kind, e3)
    e1.translate(d)
    g3b = geometry(sx, kind, e3)
    _unchanged(sx, g3, g3b, f"{kind}.copy(): translating the original leaves an untouched copy unchanged",
               f"C09:{kind}:copy:independent:of-original")
    return f"{kind}.copy"


def run_helpers(sx):
    """functions.rotate/scale/mirror and Array/Point methods leave their array arguments untouched"""
    p = sx.vec(sx.real("px", -2, 2), sx.real("py", -2, 2), sx.real("pz", -2, 2))
    o = sx.vec(sx.real("ox", -5, 5), sx.real("oy", -5, 5), sx.real("oz", -5, 5))
    n = sx.vec(1.5, 3.0, 3.0)
    sx.reach("compare")
    for name, call in (("functions.mirror", lambda a, b, c: f.mirror(a, b, c)),
                       ("functions.scale", lambda a, b, c: f.scale(a, 1.5, c)),
                       ("functions.rotate", lambda a, b, c: f.rotate(a, 0.5, b, c))):
        a, b, c = np.array(p, dtype=p.dtype), np.array(n, dtype=n.dtype), np.array(o, dtype=o.dtype)
        call(a, b, c)
        sx.prove_vec_close(a, p, f"{name} does not modify the point array passed to it",
                           key=f"C09:helpers:{name}:argument-mutated:point")
        sx.prove_vec_close(np.concatenate((b, c)), np.concatenate((n, o)),
                           f"{name} does not modify the normal/origin arrays passed to it",
                           key=f"C09:helpers:{name}:argument-mutated:other")
    return "helpers"


# ---- composite entities (shapes, stacks, assemblies) --------------------------------------------------
def build_composite(sx, kind):
    """canonical (concrete) composite entities; the symbolic part is the transformation"""
    if kind == "Cylinder":
        return cb.Cylinder([0.5, -1, 0.25], [0.5, -1, 2.25], [1.5, -1, 0.25])
    if kind == "ExtrudedRing":
        return cb.ExtrudedRing([0.5, -1, 0.25], [0.5, -1, 2.25], [1.5, -1, 0.25], 0.4)
    if kind == "RevolvedRing":
        face = cb.Face([[0, 1, 0.5], [1, 1, 0.5], [1, 1.5, 0.5], [0, 1.4, 0.5]])
        return cb.RevolvedRing([0, 0, 0.5], [1, 0, 0.5], face, 4)
    if kind == "Frustum":
        return cb.Frustum([0.5, -1, 0.25], [0.5, -1, 2.25], [1.5, -1, 0.25], 0.5)
    if kind == "Elbow":
        return cb.Elbow([0, 0, 0], [0.5, 0, 0], [0, 0, 1], math.pi / 2, [2, 0, 0], [0, 1, 0], 0.5)
    if kind == "Hemisphere":
        return cb.Hemisphere([0.5, -1, 0.25], [1.5, -1, 0.25], [0, 0, 1])
    if kind == "ExtrudedStack":
        return cb.ExtrudedStack(cb.Grid([0.5, -1, 0], [2.5, 2, 0], 2, 2), [0, 0, 1.5], 2)
    if kind == "RevolvedStack":
        return cb.RevolvedStack(cb.Grid([1, 0, 0], [2, 1, 0], 1, 2), math.pi / 3, [0, 1, 0], [-1, 0, 0], 2)
    if kind == "TJoint":
        return cb.TJoint([0.5, -1, 0.25], [0.5, -1, 3.25], [1.5, -1, 0.25])
    if kind == "LJoint":
        return cb.LJoint([0.5, -1, 0.25], [0.5, -1, 3.25], [1.5, -1, 0.25])
    if kind == "Assembly":
        from classy_blocks.construct.assemblies.assembly import Assembly

        c1 = cb.Cylinder([0.5, -1, 0.25], [0.5, -1, 2.25], [1.5, -1, 0.25])
        return Assembly([c1, cb.Cylinder.chain(c1, 1.5)])
    if kind == "CuspCylinder":
        from classy_blocks.construct.assemblies.joints import CuspCylinder

        return CuspCylinder([0.5, -1, 0.25], [0.5, -1, 3.25], [1.5, -1, 0.25], math.pi / 4, math.pi / 6)
    if kind == "RevolvedShape":
        return cb.RevolvedShape(cb.Grid([0.5, 0.2, 0], [1.5, 1.7, 0], 1, 2), math.pi / 3, [0, -1, 0], [-1.0, 0, 0.25])
    if kind == "ExtrudedShape":
        return cb.ExtrudedShape(cb.OneCoreDisk([0.5, -1, 0.25], [1.5, -1, 0.25], [0, 0, 1]), [0, 0, 1.5])
    raise KeyError(kind)


def composite_geometry(sx, e):
    mesh = cb.Mesh()
    mesh.add(e)
    mesh.assemble()
    g = [("pts", "vertices", np.array([v.position for v in mesh.vertices]))]
    for i, ed in enumerate(mesh.edge_list.edges):
        nm = f"edge#{i} {ed.kind} {ed.vertex_1.index}-{ed.vertex_2.index}"
        if ed.kind in ("arc", "origin", "angle"):
            g.append(("pt", nm + " third point", ed.third_point.position))
            g.append(("len", nm + " length", ed.length))
        elif ed.kind in ("spline", "polyLine"):
            g.append(("pts", nm + " points", ed.point_array))
    g.append(("str", "blocks", [tuple(v.index for v in b.vertices) for b in mesh.blocks]))
    return g, mesh


def run_composite(sx, kind, tkind, via_list=False, origin_mode="sym"):
    e1, e2 = build_composite(sx, kind), build_composite(sx, kind)
    o_arg = "given"
    if origin_mode == "sym":
        o = sx.vec(sx.real("ox", -5, 5), sx.real("oy", -5, 5), sx.real("oz", -5, 5))
    elif origin_mode == "default":
        # origin=None: "the entity is rotated/scaled with respect to its center" - which has to be a point of space
        # inside the entity's bounding box for that sentence to mean anything
        c = np.asarray(e1.center)
        pts = np.array([p for op in e1.operations for p in op.point_array], dtype=float)
        ok = c.shape == (3,) and bool(np.all(np.asarray(c, dtype=float) >= pts.min(axis=0) - 1e-9)
                                      and np.all(np.asarray(c, dtype=float) <= pts.max(axis=0) + 1e-9))
        sx.reach("compare")
        sx.prove(ok, f"{kind}.center (the default origin of rotate/scale) is a point within the entity's bounding box",
                 f"C09:{kind}:center", info={"center": str(c)})
        if not ok:
            return f"{kind}.{tkind}"
        o = sx.vec(*[float(x) for x in c])
        o_arg = None
    else:
        o = sx.vec(1.5, -2.0, 0.5)
    if tkind == "translate":
        d = sx.vec(sx.real("dx", -5, 5), sx.real("dy", -5, 5), sx.real("dz", -5, 5))
        A, spec = make_translate(sx, d), ("translate", {"d": d})
    elif tkind == "rotate":
        theta, A = make_rotation(sx, "a", o)
        spec = ("rotate", {"theta": theta, "axis": list(AXIS), "origin": o if o_arg else None})
    elif tkind == "scale":
        ratio = sx.real("ratio", 0.2, 5)
        A, spec = make_scale(sx, ratio, o), ("scale", {"ratio": ratio, "origin": o if o_arg else None})
    else:
        raise KeyError(tkind)
    g1_, m1 = composite_geometry(sx, e1)
    apply_transform(sx, kind, e2, spec, via_list)
    g2_, m2 = composite_geometry(sx, e2)
    sx.reach("compare")
    tag = f"{kind}.{'transform([' + tkind + '])' if via_list else tkind}"
    names1 = [x[1] for x in g1_] + [len(m1.vertices)]
    names2 = [x[1] for x in g2_] + [len(m2.vertices)]
    sx.prove(names1 == names2, f"{tag}: the transformed entity assembles to the same vertices/edges structure",
             f"C09:{kind}:{tkind}:structure", info={"before": len(names1), "after": len(names2),
                                                    "vertices": [len(m1.vertices), len(m2.vertices)]})
    if names1 != names2:
        return f"{kind}.{tkind}"
    for (t, name, v1), (_, _, v2) in zip(g1_, g2_):
        key = f"C09:{kind}:{tkind}:{t}"
        if t == "pt":
            sx.prove_vec_close(v2, A.point(np.asarray(v1)), f"{tag}: {name} == map(point)", tol=1e-8, key=key)
        elif t == "pts":
            sx.prove_vec_close(np.asarray(v2), np.array([A.point(np.asarray(p)) for p in v1]), f"{tag}: {name} == map(points)",
                               tol=1e-8, key=key)
        elif t == "len":
            sx.prove_close(v2, v1 * A.ratio, f"{tag}: {name} == ratio * length", tol=1e-7, key=key)
        elif t == "str":
            sx.prove(v1 == v2, f"{tag}: same block connectivity", key)
    return f"{kind}.{tkind}"


def run_composite_copy(sx, kind):
    """copy(): equivalent and independent; a copied sphere must still reference a geometry that is defined"""
    e1 = build_composite(sx, kind)
    e2 = e1.copy()
    d = sx.vec(sx.real("dx", -5, 5), sx.real("dy", -5, 5), sx.real("dz", -5, 5))
    g0, _ = composite_geometry(sx, e1)
    e2.translate(d)
    g1_, _ = composite_geometry(sx, e1)
    sx.reach("compare")
    _unchanged(sx, [x for x in g0 if x[0] != "str"], [x for x in g1_ if x[0] != "str"],
               f"{kind}.copy(): translating the copy leaves the original unchanged", f"C09:{kind}:copy:independent")
    g2_, mesh2 = composite_geometry(sx, e2)
    A = make_translate(sx, d)
    ok = [x[1] for x in g0] == [x[1] for x in g2_] and len(g0[0][2]) == len(g2_[0][2])
    sx.prove(ok, f"{kind}.copy().translate: same structure", f"C09:{kind}:copy:structure")
    if ok:
        for (t, name, v1), (_, _, v2) in zip(g0, g2_):
            if t in ("pt", "pts"):
                want = A.point(np.asarray(v1)) if t == "pt" else np.array([A.point(np.asarray(p)) for p in v1])
                sx.prove_vec_close(np.asarray(v2), want, f"{kind}.copy().translate: {name}", tol=1e-8, key=f"C09:{kind}:copy:{t}")
    # geometry referenced by projections of the copy is defined by the copy
    used = set()
    for op in e2.operations:
        for lab in [op.bottom_face.projected_to, op.top_face.projected_to, *op.side_projects]:
            if lab:
                used.add(lab)
        # ... and the labels of projected edges (face edges and side edges) and of projected points
        for edge in [*op.bottom_face.edges, *op.top_face.edges, *op.side_edges]:
            if isinstance(edge, cb.Project):
                used.update([edge.label] if isinstance(edge.label, str) else list(edge.label))
        for face in (op.bottom_face, op.top_face):
            for point in face.points:
                used.update(point.projected_to)
    defined = set((e2.geometry or {}).keys())
    sx.prove(used <= defined, f"{kind}.copy(): every geometry the copy projects to is defined by the copy",
             f"C09:{kind}:copy:geometry", info={"used": sorted(used), "defined": sorted(defined)})
    return f"{kind}.copy"


def install():
    from . import c16

    c16.install()
    META.setdefault("stubs", []).extend(s for s in c16.META.get("stubs", []) if s not in META.get("stubs", []))


def validate(seed):
    from . import c16

    return c16.validate(seed)


def jobs(tier, seed):
    js = []

    def add(kind, tkind, **kw):
        name = f"{kind}.{tkind}" + "".join(f"|{k}={v}" for k, v in sorted(kw.items()))
        js.append({"name": name, "fn": "run", "params": dict(kind=kind, tkind=tkind, **kw),
                   "budget_s": 200 if tier == "quick" else 1500, "timeout_ms": 15000 if tier == "quick" else 60000})

    simple = ["point", "array", "arc", "origin", "angle", "spline", "polyline", "discrete", "linecurve", "lininterp"]
    for kind in simple:
        for tk in ("translate", "rotate", "scale", "mirror"):
            add(kind, tk, nsym=9 if tier == "thorough" else 3,
                normal_mode="sym" if kind in ("point", "arc", "origin", "angle") or tier == "thorough" else "pinned")
    for kind in simple:
        for tk in ("translate", "rotate", "scale", "mirror"):
            if tk == "translate" and kind not in ("discrete", "lininterp", "linecurve"):
                continue
            add(kind, tk, via_list=True, normal_mode="sym" if kind in ("point", "angle") else "pinned")
    for kind in ("face", "loft", "loft-angle", "extrude", "revolve"):
        for tk in ("translate", "rotate", "scale", "mirror"):
            add(kind, tk, nsym=2 if tier == "quick" else 6, origin_mode="pinned" if tier == "quick" else "sym",
                normal_mode="pinned")
    if tier == "thorough":
        for kind in ("face", "loft", "loft-angle", "revolve"):
            for tk in ("rotate", "scale", "mirror"):
                add(kind, tk, nsym=2, via_list=True, origin_mode="pinned", normal_mode="pinned")
        for kind in simple:
            add(kind, "rotate", pin="b", nsym=9)
    for kind in ("point", "array", "spline", "discrete", "linecurve", "lininterp", "face", "loft", "revolve"):
        js.append({"name": f"{kind}.copy", "fn": "run_copy", "params": {"kind": kind, "nsym": 3},
                   "budget_s": 200 if tier == "quick" else 1500})
    js.append({"name": "helpers", "fn": "run_helpers", "budget_s": 100})
    comps = ["Cylinder", "ExtrudedRing", "RevolvedRing", "RevolvedShape", "Hemisphere", "ExtrudedStack", "LJoint"] if tier == "quick" else \
        ["Cylinder", "ExtrudedRing", "RevolvedRing", "RevolvedShape", "Frustum", "Elbow", "Hemisphere", "ExtrudedStack", "RevolvedStack", "LJoint",
         "ExtrudedShape", "Assembly", "CuspCylinder", "TJoint"]
    for kind in comps:
        for tk in ("translate", "rotate", "scale"):
            js.append({"name": f"{kind}.{tk}|composite", "fn": "run_composite",
                       "params": {"kind": kind, "tkind": tk, "origin_mode": "pinned" if tier == "quick" else "sym"},
                       "budget_s": 280 if tier == "quick" else 1500})
        if tier == "thorough":
            js.append({"name": f"{kind}.rotate|composite|list", "fn": "run_composite",
                       "params": {"kind": kind, "tkind": "rotate", "via_list": True}, "budget_s": 1500})
    for kind in (comps if tier == "thorough" else ["Cylinder", "LJoint", "ExtrudedStack", "Hemisphere", "Assembly", "CuspCylinder"]):
        for tk in ("rotate", "scale"):
            js.append({"name": f"{kind}.{tk}|composite|default-origin", "fn": "run_composite",
                       "params": {"kind": kind, "tkind": tk, "origin_mode": "default"},
                       "budget_s": 280 if tier == "quick" else 1500})
    for kind in ("Cylinder", "Hemisphere", "ExtrudedStack"):
        js.append({"name": f"{kind}.copy|composite", "fn": "run_composite_copy", "params": {"kind": kind},
                   "budget_s": 280 if tier == "quick" else 1500})
    return js
