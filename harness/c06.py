"""C06 - the written blockMeshDict is a faithful, well-formed rendering of the model."""
import os
import tempfile

import numpy as np

import classy_blocks as cb

from . import bmd, c07, c10, g1

PROPERTY = "C06"
META = {
    "explanation": "User scripts built from templates (three boxes in a row with symbolic origin and extents; patches, "
                   "projections, deletions and patch modifications addressed by solver-chosen selectors; cell zones, default "
                   "patch, merged pair, settings and geometry) are written by the real Mesh.write (with the debug VTK); "
                   "the file is read back by the harness parser and related to the declarations: vertices are the "
                   "model's points (symbolic equality through the number tokens), hex entries list each non-deleted "
                   "operation's corners in order with zone and counts, boundary/defaultPatch/mergePatchPairs/faces/geometry "
                   "contain exactly what was declared, every quad lies on the geometric side that was addressed, every "
                   "index exists, every quad is a side of some block, projected geometries are defined, and the VTK lists "
                   "the same points and hexahedra. Sphere shapes (plain, translated by a symbolic vector, copied, two in one "
                   "mesh) are written too: one searchableSphere per shape, every projected label defined, centred at the "
                   "shape's centre with its radius, and the corners of every projected quad on that sphere.",
    "bounds": {"operations": "3 boxes in a row, symbolic origin (3 reals) and extents (5 reals)", "selectors": "patch side "
               "per box (6x6), projected side (6) x edges x points, deleted operation (none/0/1/2), patch-modification "
               "sequence (5 variants)", "counts": "count-only chops"},
    "outside": ["the 8-decimal text rendering of coordinates (the number formatter emits tokens in symbolic mode; the "
                "concrete replay parses the real text)", "scripts longer than "
                "the templates"],
    "assumptions": [],
    "must_reach": ["written"],
}

SIDES = c10.SIDES
SIDE_AXIS = c10.SIDE_AXIS


def _write(sx, mesh, vtk=True):
    d = c07._scratch()
    fd, path = tempfile.mkstemp(dir=d, suffix=".bmd")
    os.close(fd)
    vpath = path + ".vtk"
    try:
        mesh.write(path, vpath if vtk else None)
        with open(path, encoding="utf-8") as fh:
            text = fh.read()
        vt = open(vpath, encoding="utf-8").read() if vtk else None
    finally:
        for p in (path, vpath):
            if os.path.exists(p):
                os.unlink(p)
    return bmd.parse(sx, text), text, vt


def _boxes(sx):
    o = [sx.real(f"o{i}", -5, 5) for i in range(3)]
    ex = [sx.real(f"ex{i}", 0.2, 4) for i in range(3)]      # three extents along x (one per box)
    ey, ez = sx.real("ey", 0.2, 4), sx.real("ez", 0.2, 4)
    boxes, bounds = [], []
    x0 = o[0]
    for i in range(3):
        lo = [x0, o[1], o[2]]
        hi = [x0 + ex[i], o[1] + ey, o[2] + ez]
        boxes.append(cb.Box(lo, hi))
        bounds.append((lo, hi))
        x0 = x0 + ex[i]
    for i, b in enumerate(boxes):
        b.chop(0, count=2 + i)
    boxes[0].chop(1, count=3)
    boxes[0].chop(2, count=4)
    return boxes, bounds


def _corner(lo, hi, k):
    bits = g1.CORNERS[k]
    return [hi[a] if bits[a] else lo[a] for a in range(3)]


def _pos(parsed, i):
    return parsed["vertices"][i]["pos"]


def _close(sx, p, q):
    return sx.all([sx.close(a, b, 1e-8) for a, b in zip(p, q)])


def _quad_on_side(sx, parsed, quad, lo, hi, side):
    ax, end = SIDE_AXIS[side]
    want = hi[ax] if end else lo[ax]
    conds = [sx.close(_pos(parsed, i)[ax], want, 1e-8) for i in quad]
    # and within the box in the other two directions
    for i in quad:
        for a in range(3):
            if a != ax:
                conds.append(_pos(parsed, i)[a] >= lo[a] - sx.const(1e-8))
                conds.append(_pos(parsed, i)[a] <= hi[a] + sx.const(1e-8))
    return sx.all(conds)


def _common(sx, parsed, vtk, live, bounds, zones, counts, tag, dup=0):
    """checks shared by all templates"""
    nv = len(parsed["vertices"])
    # hex entries: one per live operation, in order, corners in the operation's own order
    sx.prove(len(parsed["blocks"]) == len(live), f"{tag}: one hex entry per non-deleted operation", "C06:hex:count",
             info={"blocks": len(parsed["blocks"]), "live": live})
    if len(parsed["blocks"]) == len(live):
        conds = []
        for blk, i in zip(parsed["blocks"], live):
            lo, hi = bounds[i]
            ok_idx = len(blk["indexes"]) == 8 and all(0 <= x < nv for x in blk["indexes"])
            conds.append(ok_idx)
            if ok_idx:
                for k in range(8):
                    conds.append(_close(sx, _pos(parsed, blk["indexes"][k]), _corner(lo, hi, k)))
        sx.prove(sx.all(conds), f"{tag}: hex entries list the operation's eight corners in its own order", "C06:hex:corners")
        sx.prove(all(blk["zone"] == zones[i] for blk, i in zip(parsed["blocks"], live)), f"{tag}: cell zones as declared",
                 "C06:hex:zone", info={"written": [b["zone"] for b in parsed["blocks"]]})
        sx.prove(all(list(blk["counts"]) == counts[i] for blk, i in zip(parsed["blocks"], live)),
                 f"{tag}: counts as chopped", "C06:hex:counts", info={"written": [b["counts"] for b in parsed["blocks"]]})
    # vertices: exactly the distinct corner positions of the live operations
    expected = {}
    for i in live:
        for k in range(8):
            lat = (i + g1.CORNERS[k][0], g1.CORNERS[k][1], g1.CORNERS[k][2])
            expected.setdefault(lat, _corner(*bounds[i], k))
    sx.prove(nv == len(expected) + dup, f"{tag}: one written vertex per distinct model point (plus the copies on a slave patch)",
             "C06:vertices:count", info={"written": nv, "expected": len(expected) + dup})
    # every index refers to an existing vertex; every quad is a side of some block
    quads = [q for p in parsed["boundary"].values() for q in p["faces"]] + [f["quad"] for f in parsed["faces"]]
    sx.prove(all(len(q) == 4 and all(0 <= i < nv for i in q) for q in quads), f"{tag}: every quad index refers to an existing vertex",
             "C06:index-range")
    block_sides = []
    for blk in parsed["blocks"]:
        idx = blk["indexes"]
        for side, (ax, end) in SIDE_AXIS.items():
            block_sides.append(frozenset(idx[k] for k in range(8) if g1.CORNERS[k][ax] == end))
    sx.prove(all(frozenset(q) in block_sides for q in quads), f"{tag}: every patch / projected quad is a side of some block",
             "C06:quad-is-block-side", info={"quads": quads})
    # vtk
    if vtk is not None:
        v = bmd.parse_vtk(vtk, sx)
        conds = [len(v["points"]) == nv, v["cells"] == [b["indexes"] for b in parsed["blocks"]]]
        if len(v["points"]) == nv:
            for i in range(nv):
                conds.append(_close(sx, v["points"][i], _pos(parsed, i)))
        sx.prove(sx.all(conds), f"{tag}: the debug VTK lists the same points and hexahedra", "C06:vtk")


def run_patches(sx):
    boxes, bounds = _boxes(sx)
    sA, sB = SIDES[sx.choice("sideA", 6)], SIDES[sx.choice("sideB", 6)]
    boxes[0].set_patch(sA, "pa")
    boxes[2].set_patch(sB, "pb")
    boxes[1].set_patch(["top", "bottom"], "walls")
    boxes[1].set_cell_zone("porous")
    boxes[2].chop(1, count=3)     # box 2 may be cut off from its neighbour by the merged pair
    boxes[2].chop(2, count=4)
    mesh = cb.Mesh()
    for b in boxes:
        mesh.add(b)
    mesh.set_default_patch("rest", "wall")
    mesh.merge_patches("pa", "pb")
    mesh.settings["scale"] = 0.01
    mesh.settings["mergeType"] = "points"
    # the declarations above belong to the mesh, not to one assembly: the file is the same when the mesh was assembled
    # before and cleared, or back-ported (what optimisers end with), before it is written (solver's choice)
    again = sx.choice("reassemble", 3)
    if again:
        mesh.assemble()
        if again == 1:
            mesh.clear()
        else:
            mesh.backport()
    parsed, text, vtk = _write(sx, mesh)
    sx.reach("written")
    # merged pair pa/pb: vertices on the slave side pb are duplicated; the harness accounts for that in the vertex count
    axb, endb = SIDE_AXIS[sB]
    # corners of box 2 that lie on the slave patch and coincide with corners of box 1 get their own copies
    slave_dup = sum(1 for k in range(8) if g1.CORNERS[k][0] == 0 and g1.CORNERS[k][axb] == endb)
    tag = f"patches {sA}/{sB}"
    counts = {0: [2, 3, 4], 1: [3, 3, 4], 2: [4, 3, 4]}
    _common(sx, parsed, vtk, [0, 1, 2], bounds, {0: "", 1: "porous", 2: ""}, counts, tag, slave_dup)
    bd = parsed["boundary"]
    sx.prove(parsed["boundary_order"] == ["pa", "walls", "pb"], f"{tag}: boundary lists exactly the declared patches, in order "
             "of declaration", "C06:boundary:names", info={"written": parsed["boundary_order"]})
    if set(bd) == {"pa", "walls", "pb"}:
        sx.prove(all(bd[n]["type"] == "patch" and bd[n]["settings"] == [] for n in bd), f"{tag}: default patch type/settings",
                 "C06:boundary:type")
        sx.prove(len(bd["pa"]["faces"]) == 1 and len(bd["pb"]["faces"]) == 1 and len(bd["walls"]["faces"]) == 2,
                 f"{tag}: number of quads per patch", "C06:boundary:quad-count")
        if len(bd["pa"]["faces"]) == 1 and len(bd["pb"]["faces"]) == 1 and len(bd["walls"]["faces"]) == 2:
            sx.prove(_quad_on_side(sx, parsed, bd["pa"]["faces"][0], *bounds[0], sA), f"{tag}: quad of 'pa' is side {sA} of box 0",
                     f"C06:boundary:side:{sA}")
            sx.prove(_quad_on_side(sx, parsed, bd["pb"]["faces"][0], *bounds[2], sB), f"{tag}: quad of 'pb' is side {sB} of box 2",
                     f"C06:boundary:side:{sB}")
            w = bd["walls"]["faces"]
            ok = sx.any([sx.all([_quad_on_side(sx, parsed, w[0], *bounds[1], "top"), _quad_on_side(sx, parsed, w[1], *bounds[1], "bottom")]),
                         sx.all([_quad_on_side(sx, parsed, w[1], *bounds[1], "top"), _quad_on_side(sx, parsed, w[0], *bounds[1], "bottom")])])
            sx.prove(ok, f"{tag}: quads of 'walls' are top and bottom of box 1", "C06:boundary:side:list")
    sx.prove(parsed["default"] == {"name": "rest", "type": "wall"}, f"{tag}: defaultPatch as declared", "C06:default")
    sx.prove(parsed["merged"] == [["pa", "pb"]], f"{tag}: mergePatchPairs as declared", "C06:merged")
    sx.prove(parsed["settings"] == {"scale": "0.01", "mergeType": "points"}, f"{tag}: settings as declared", "C06:settings",
             info={"written": parsed["settings"]})
    sx.prove(parsed["faces"] == [] and parsed["geometry"] == {} and parsed["edges"] == [], f"{tag}: nothing undeclared is written",
             "C06:extras")
    return "written"


def run_project(sx, edges, points):
    boxes, bounds = _boxes(sx)
    side = SIDES[sx.choice("side", 6)]
    boxes[1].project_side(side, "terrain", edges=edges, points=points)
    mesh = cb.Mesh()
    for b in boxes:
        mesh.add(b)
    geo = {"terrain": ["type triSurfaceMesh", "file \"terrain.stl\""]}
    if sx.flag("geometry_declared_twice"):
        # the user corrects a geometry: the later declaration of a name is the one that counts
        mesh.add_geometry({"terrain": ["type searchablePlane", "planeType pointAndNormal", "point (0 0 0)", "normal (0 0 1)"],
                           "unused": ["type searchableSphere", "centre (0 0 0)", "radius 1"]})
        mesh.add_geometry(geo)
        geo = {"terrain": geo["terrain"], "unused": ["type searchableSphere", "centre (0 0 0)", "radius 1"]}
    else:
        mesh.add_geometry(geo)
    parsed, text, vtk = _write(sx, mesh)
    sx.reach("written")
    tag = f"project_side({side}, edges={edges}, points={points})"
    counts = {0: [2, 3, 4], 1: [3, 3, 4], 2: [4, 3, 4]}
    _common(sx, parsed, vtk, [0, 1, 2], bounds, {0: "", 1: "", 2: ""}, counts, tag)
    sx.prove(len(parsed["faces"]) == 1 and parsed["faces"][0]["geometry"] == "terrain", f"{tag}: one projected face", "C06:faces:count")
    if len(parsed["faces"]) == 1:
        sx.prove(_quad_on_side(sx, parsed, parsed["faces"][0]["quad"], *bounds[1], side), f"{tag}: the projected quad is that side",
                 f"C06:faces:side:{side}")
    sx.prove(parsed["geometry"] == geo, f"{tag}: geometry section as (last) declared", "C06:geometry",
             info={"written": parsed["geometry"]})
    used = {f["geometry"] for f in parsed["faces"]} | {g for e in parsed["edges"] if e["kind"] == "project" for g in e["data"]} \
        | {g for v in parsed["vertices"] for g in v["project"]}
    sx.prove(used <= set(parsed["geometry"]), f"{tag}: every geometry that is projected to is defined", "C06:geometry:defined")
    pe = [e for e in parsed["edges"] if e["kind"] == "project"]
    sx.prove(len(pe) == (4 if edges else 0) and len(parsed["edges"]) == len(pe), f"{tag}: projected edges as declared",
             "C06:edges:project-count", info={"written": len(pe)})
    lo, hi = bounds[1]
    ax, end = SIDE_AXIS[side]
    if edges and len(pe) == 4:
        conds = [sx.close(_pos(parsed, i)[ax], hi[ax] if end else lo[ax], 1e-8) for e in pe for i in (e["v1"], e["v2"])]
        sx.prove(sx.all(conds), f"{tag}: projected edges lie on that side", "C06:edges:project-side")
    pv = [i for i, v in enumerate(parsed["vertices"]) if v["project"]]
    sx.prove(len(pv) == (4 if points else 0), f"{tag}: projected vertices as declared", "C06:vertices:project-count",
             info={"written": len(pv)})
    if points and len(pv) == 4:
        sx.prove(sx.all([sx.close(_pos(parsed, i)[ax], hi[ax] if end else lo[ax], 1e-8) for i in pv]),
                 f"{tag}: projected vertices lie on that side", "C06:vertices:project-side")
    return "written"


LABELS = [("terrain",), ("wall",), ("terrain", "wall"), ("wall", "roof")]


def run_project_shared(sx, full=False, order_i=None):
    """two operations project corners that are one vertex: the vertex is written with everything that was declared"""
    boxes, bounds = _boxes(sx)
    order = [[0, 1, 2], [1, 0, 2], [2, 1, 0]][sx.choice("order", 3) if order_i is None else order_i]
    # box 0's right side is box 1's left side: corner 1/2/5/6 of box 0 is corner 0/3/4/7 of box 1
    pairs = [(1, 0), (2, 3), (5, 4), (6, 7)]
    c0, c1 = pairs[sx.choice("corner", 4)]
    other = pairs[sx.choice("other_corner", 4)][1] if full else [c1, pairs[(c0 + 1) % 4][1]][sx.choice("other_corner", 2)]
    nl = len(LABELS) if full else 3
    la = LABELS[sx.choice("labels_0", nl)]
    lb = LABELS[(1 + sx.choice("labels_1", nl)) % len(LABELS)]
    boxes[0].project_corner(c0, list(la) if len(la) > 1 else la[0])
    boxes[1].project_corner(other, list(lb) if len(lb) > 1 else lb[0])
    boxes[1].project_corner(c1, "roof")
    declared = [(0, c0, la), (1, other, lb), (1, c1, ("roof",))]
    mesh = cb.Mesh()
    for i in order:
        mesh.add(boxes[i])
    mesh.add_geometry({name: ["type triSurfaceMesh", f"file \"{name}.stl\""] for name in ("terrain", "wall", "roof")})
    parsed, text, vtk = _write(sx, mesh)
    sx.reach("written")
    tag = f"project_corner({c0}, {la}) on box 0, ({other}, {lb}) and ({c1}, roof) on box 1, insertion order {order}"
    counts = {0: [2, 3, 4], 1: [3, 3, 4], 2: [4, 3, 4]}
    _common(sx, parsed, vtk, order, bounds, {0: "", 1: "", 2: ""}, counts, tag)
    # the hex entries (checked against the geometry by _common) say which written vertex each corner is
    expected = {}
    for box, corner, labels in declared:
        vi = parsed["blocks"][order.index(box)]["indexes"][corner]
        expected.setdefault(vi, set()).update(labels)
    bad = [(vi, v["project"], sorted(expected.get(vi, set()))) for vi, v in enumerate(parsed["vertices"])
           if set(v["project"]) != expected.get(vi, set())]
    sx.prove(not bad, f"{tag}: every vertex is written with exactly the geometries its corners were projected to "
             "(by any operation, in any insertion order)", "C06:vertices:project-shared",
             info={"mismatches": [list(map(str, x)) for x in bad[:4]]})
    return "written"


MODS = ["none", "kind-only", "kind+settings", "settings-then-reset", "settings-then-none", "settings-then-new"]


def run_delete_modify(sx):
    boxes, bounds = _boxes(sx)
    for i, b in enumerate(boxes):
        b.set_patch("top", "lid")
        b.set_patch("front", f"front{i}")
        b.set_cell_zone(f"z{i}")
    mesh = cb.Mesh()
    for b in boxes:
        mesh.add(b)
    dele = sx.choice("deleted", 4)       # 3 = nothing deleted
    mod = MODS[sx.choice("modification", len(MODS))]
    if dele < 3:
        mesh.delete(boxes[dele])
    kind, settings = "patch", []
    if mod == "kind-only":
        mesh.modify_patch("lid", "wall")
        kind = "wall"
    elif mod == "kind+settings":
        mesh.modify_patch("lid", "cyclic", ["neighbourPatch other", "transform none"])
        kind, settings = "cyclic", ["neighbourPatch other", "transform none"]
    elif mod == "settings-then-reset":
        mesh.modify_patch("lid", "cyclic", ["neighbourPatch other"])
        mesh.modify_patch("lid", "wall", [])
        kind, settings = "wall", []
    elif mod == "settings-then-none":
        mesh.modify_patch("lid", "cyclic", ["neighbourPatch other"])
        mesh.modify_patch("lid", "wall")
        kind, settings = "wall", ["neighbourPatch other"]
    elif mod == "settings-then-new":
        mesh.modify_patch("lid", "cyclic", ["neighbourPatch other"])
        mesh.modify_patch("lid", "mapped", ["offset (0 0 1)"])
        kind, settings = "mapped", ["offset (0 0 1)"]
    live = [i for i in range(3) if i != dele]
    if dele == 1:
        # blocks 0 and 2 no longer touch: y/z counts must come from box 0 only -> chop box 2 as well
        boxes[2].chop(1, count=3)
        boxes[2].chop(2, count=4)
    if dele == 0:
        boxes[1].chop(1, count=3)
        boxes[1].chop(2, count=4)
    parsed, text, vtk = _write(sx, mesh)
    sx.reach("written")
    tag = f"delete {dele if dele < 3 else '-'} / modify {mod}"
    counts = {0: [2, 3, 4], 1: [3, 3, 4], 2: [4, 3, 4]}
    _common(sx, parsed, vtk, live, bounds, {i: f"z{i}" for i in range(3)}, counts, tag)
    names = ["lid"] + [f"front{i}" for i in live]
    sx.prove(sorted(parsed["boundary"]) == sorted(names), f"{tag}: boundary lists exactly the patches of the live operations",
             "C06:boundary:names", info={"written": parsed["boundary_order"]})
    if "lid" in parsed["boundary"]:
        lid = parsed["boundary"]["lid"]
        sx.prove(lid["type"] == kind and lid["settings"] == settings, f"{tag}: patch type and settings as last declared",
                 f"C06:boundary:modify:{mod}", info={"written": [lid["type"], lid["settings"]], "declared": [kind, settings]})
        sx.prove(len(lid["faces"]) == len(live), f"{tag}: one 'lid' quad per live operation", "C06:boundary:quad-count")
        if len(lid["faces"]) == len(live):
            sx.prove(sx.all([_quad_on_side(sx, parsed, q, *bounds[i], "top") for q, i in zip(lid["faces"], live)]),
                     f"{tag}: 'lid' quads are the top sides of the live boxes", "C06:boundary:side:top")
    return "written"


SPHERE_VARIANTS = ["plain", "translated", "copy-only", "original+copy", "two-spheres"]


def _sphere(cls):
    s = cls([0.5, -1, 0.25], [1.5, -1, 0.25], [0, 0, 1])
    s.chop_axial(count=2)
    s.chop_radial(count=3)
    s.chop_tangential(count=4)
    return s


def run_sphere(sx, cls_name):
    """auto-geometry of sphere shapes: every geometry a built-in shape projects to is defined, and it is that shape's sphere"""
    cls = getattr(cb, cls_name)
    d = sx.vec(sx.real("dx", -5, 5), sx.real("dy", -5, 5), sx.real("dz", -5, 5))
    variant = SPHERE_VARIANTS[sx.choice("variant", len(SPHERE_VARIANTS))]
    c0 = sx.vec(0.5, -1, 0.25)
    first = _sphere(cls)
    if variant == "plain":
        shapes, centres = [first], [c0]
    elif variant == "translated":
        shapes, centres = [first.translate(d)], [c0 + d]
    elif variant == "copy-only":
        shapes, centres = [first.copy().translate(d)], [c0 + d]
    elif variant == "original+copy":
        # (both moved by the same symbolic vector: the mutual distances that vertex merging looks at stay concrete)
        second = first.copy().translate([7, 0.5, 0])
        shapes, centres = [first.translate(d), second.translate(d)], [c0 + d, c0 + d + sx.vec(7, 0.5, 0)]
    else:
        second = _sphere(cls).translate([7, 0.5, 0])
        shapes, centres = [first.translate(d), second.translate(d)], [c0 + d, c0 + d + sx.vec(7, 0.5, 0)]
    mesh = cb.Mesh()
    for s in shapes:
        s.set_outer_patch("ball")
        mesh.add(s)
    tag = f"{cls_name} ({variant})"
    sx.reach("written")
    try:
        parsed, text, vtk = _write(sx, mesh, vtk=False)
    except cb.base.exceptions.UndefinedGradingsError as e:
        # the same chops define every block of the untransformed shape: a rigid motion or a copy must not un-define them
        sx.prove(False, f"{tag}: the script is well-posed (its untransformed twin is written) but write() raised "
                 f"{type(e).__name__}", "C06:sphere:written")
        return "not written"
    geo = parsed["geometry"]
    sx.prove(len(geo) == len(shapes) and all(e and e[0] == "type searchableSphere" for e in geo.values()),
             f"{tag}: one searchableSphere geometry per sphere shape", "C06:sphere:geometry-count", info={"written": sorted(geo)})
    used = {f["geometry"] for f in parsed["faces"]} | {g for e in parsed["edges"] if e["kind"] == "project" for g in e["data"]} \
        | {g for v in parsed["vertices"] for g in v["project"]}
    sx.prove(used <= set(geo), f"{tag}: every geometry a sphere shape projects to is defined", "C06:sphere:geometry-defined",
             info={"used": sorted(used), "defined": sorted(geo)})
    sx.prove(len(used) == len(shapes), f"{tag}: each sphere shape projects to its own geometry", "C06:sphere:geometry-own",
             info={"used": sorted(used)})
    n_ops = len(shapes[0].operations)
    n_shell = len(shapes[0].shell)
    sx.prove(len(parsed["faces"]) == n_shell * len(shapes), f"{tag}: one projected face per shell operation", "C06:sphere:faces-count",
             info={"written": len(parsed["faces"]), "shell": n_shell})
    # what each defined geometry says, and where the things projected to it are
    spheres = {}
    for name, entries in geo.items():
        ent = dict(e.split(None, 1) for e in entries)
        if "centre" in ent and "radius" in ent:
            spheres[name] = (bmd._vec(sx, ent["centre"].strip("()")), bmd.num(sx, ent["radius"]), bmd._vec(sx, ent["origin"].strip("()")))
    sx.prove(len(spheres) == len(geo), f"{tag}: geometry entries have centre, origin and radius", "C06:sphere:geometry-entries")
    conds, match = [], []
    for (c, r, o) in spheres.values():
        match.append(sx.any([sx.all([sx.close(c[i], cc[i], 1e-7) for i in range(3)] + [sx.close(o[i], cc[i], 1e-7) for i in range(3)])
                             for cc in centres]))
        conds.append(sx.close(r, 1.0, 1e-7))
    sx.prove(sx.all(match), f"{tag}: every geometry is centred where a sphere shape is", "C06:sphere:centre")
    sx.prove(sx.all(conds), f"{tag}: every geometry has the shape's radius", "C06:sphere:radius")
    on = []
    for fc in parsed["faces"]:
        if fc["geometry"] in spheres:
            c, r, _ = spheres[fc["geometry"]]
            for i in fc["quad"]:
                pp = _pos(parsed, i)
                dist2 = sum(((pp[a] - c[a]) * (pp[a] - c[a]) for a in range(3)), sx.const(0))
                on.append(sx.close(dist2, r * r, 1e-6))
    sx.prove(sx.all(on), f"{tag}: the corners of every projected quad lie on the geometry it is projected to", "C06:sphere:on-surface")
    sx.prove(all(0 <= i < len(parsed["vertices"]) for b in parsed["blocks"] for i in b["indexes"])
             and len(parsed["blocks"]) == n_ops * len(shapes), f"{tag}: blocks and indices", "C06:sphere:blocks")
    quads = {tuple(sorted(q)) for q in parsed["boundary"].get("ball", {"faces": []})["faces"]}
    proj = {tuple(sorted(fc["quad"])) for fc in parsed["faces"]}
    sx.prove(quads == proj, f"{tag}: the outer patch consists of exactly the projected quads", "C06:sphere:outer-patch")
    return "written"


def jobs(tier, seed):
    js = [{"name": "patches+zones+default+merge+settings", "fn": "run_patches"},
          *[{"name": f"project_corner|shared corners|insertion order {i}", "fn": "run_project_shared",
             "params": {"full": tier != "quick", "order_i": i}} for i in range(3)],
          {"name": "delete+modify_patch", "fn": "run_delete_modify"}]
    for edges in (False, True):
        for points in (False, True):
            js.append({"name": f"project_side|edges={edges}|points={points}", "fn": "run_project",
                       "params": {"edges": edges, "points": points}})
    for cls_name in (["Hemisphere"] if tier == "quick" else ["Hemisphere", "EighthSphere", "QuarterSphere"]):
        if hasattr(cb, cls_name):
            js.append({"name": f"sphere|{cls_name}", "fn": "run_sphere", "params": {"cls_name": cls_name}})
    for j in js:
        j["budget_s"] = 280 if tier == "quick" else 1500
    return js
