"""C13 - optimization never worsens quality; only clamped vertices move, on their constraints."""
from fractions import Fraction

import numpy as np
import z3

import classy_blocks as cb
from classy_blocks.optimize.optimizer import MeshOptimizer, SketchOptimizer

from . import c15

PROPERTY = "C13"
META = {
    "explanation": "OptimizerBase.optimize/optimize_iteration/optimize_clamp/_get_sensitivity, GridBase.update/quality, "
                   "Junction.quality, clamps, links and the backport run for real; the numerical minimiser is replaced "
                   "by a demonic one (evaluates the objective at arbitrary in-bounds symbolic parameter vectors and "
                   "leaves the state at the last one; any real method that honours its bounds is one behaviour of it), "
                   "approx_fprime returns an arbitrary gradient (so the clamp order is a solver-chosen permutation), the "
                   "cell quality is an uninterpreted function of the cell's points that may also report a degenerate "
                   "cell (ValueError) at the solver's choice during a probe. z3 shows: summed quality after optimize() <= "
                   "before; rows of vertices without clamp/link unchanged; clamped rows equal clamp.function(params) with "
                   "params inside the bounds; follower rows keep their link relation to the leader; mesh vertices / "
                   "sketch faces equal the final grid rows; a probe that hits a degenerate cell is rolled back.",
    "bounds": {"grids": "2x2 and 3x3 quad sketches, 2 and 2x2 box meshes", "clamps": "1-2 (Free, Line with bounds), up to two "
               "translation links on one leader", "probes per minimisation": "1 (quick) / 2 (thorough)", "iterations": "1-2"},
    "outside": ["that a real minimiser actually improves anything; convergence", "auto_optimize's random plane basis (C17)",
                "what the quality function computes (C14)"],
    "assumptions": ["scipy minimisers honour `bounds` (documented for SLSQP, L-BFGS-B, Nelder-Mead, Powell)",
                    "the initial grid has no degenerate cell; sensitivity probes (offsets of 1e-6) do not create one",
                    "ClampBase.get_params returns parameters of the creation position (clamps are created on vertices)"],
    "must_reach": ["optimized", "rollback", "degenerate"],
}

_STATE = {"probes": 1, "allow_degenerate": False, "nq": 0}


def install():
    from symx import api, core, stubs_opt
    import classy_blocks.optimize.cell as CE
    import classy_blocks.optimize.iteration as IT
    import classy_blocks.optimize.optimizer as OP

    META.setdefault("stubs", []).append(stubs_opt.install_clamp_init_model())

    def demonic_minimize(fun, x0, bounds=None, method=None, **kw):
        sx = api.CUR
        x0 = np.atleast_1d(np.asarray(x0, dtype=object))
        x = x0
        for _ in range(_STATE["probes"]):
            pinned = _STATE.get("pinned")
            if pinned is not None and len(x0) == 1:
                # a radial clamp's parameter is an arc length: the demon turns the leader by one of the pinned angles
                # (rational cosine and sine), chosen by the solver, so that the rotation link's arccos/rotation stay exact
                stubs_opt._counter["n"] += 1
                names = sorted(pinned["pins"])
                pin = names[sx.choice(f"pin{stubs_opt._counter['n']}", len(names))]
                m, c, sn = pinned["pins"][pin]
                theta = sx.angle(f"turn{stubs_opt._counter['n']}_{pin}", m, c, sn)
                pinned["picked"].append((theta, c, sn))
                x = np.array([theta * pinned["radius"]], dtype=object)
            else:
                x = stubs_opt.fresh_vector(len(x0), bounds, "probe")
            _STATE["allow_degenerate"] = True
            try:
                fun(x)
            finally:
                _STATE["allow_degenerate"] = False
        return stubs_opt.Result(x)

    def demonic_fprime(xk, f, epsilon=None, *a):
        sx = api.CUR
        xk = np.atleast_1d(np.asarray(xk, dtype=object))
        f(xk)
        f(xk + np.array([core.R(1e-6)] + [core.R(0)] * (len(xk) - 1), dtype=object))
        stubs_opt._counter["n"] += 1
        return core.lift_arr([sx.real(f"grad{stubs_opt._counter['n']}_{i}", -100, 100) for i in range(len(xk))])

    class _Opt:
        minimize = staticmethod(demonic_minimize)
        approx_fprime = staticmethod(demonic_fprime)

    class _Sc:
        optimize = _Opt()
    if True:
        OP.scipy = _Sc()
        OP.print = lambda *a, **k: None
        IT.report = lambda *a, **k: None
        IT.print = lambda *a, **k: None

    def quality(self):
        """uninterpreted quality of the cell's current points; may report a degenerate cell during a minimiser probe"""
        sx = api.CUR
        ctx = core.Ctx.cur
        pts = [core.R.lift(v) for v in np.asarray(self.points).ravel()]
        key = ("QUALITY", len(pts), tuple(core._key(p) for p in pts))
        g = ctx.memo.get(key)
        if g is None:
            if _STATE["allow_degenerate"]:
                _STATE["nq"] += 1
                if sx.flag(f"degenerate{_STATE['nq']}"):
                    sx.reach("degenerate")
                    raise ValueError("Degenerate Cell (solver's choice)")
            g = ctx.new_gen(f"Q!{len(ctx.names)}")
            ctx.memo[key] = g
            ctx.add(ctx.zv[g] >= 0)
            for (n2, a2, g2) in ctx.uf_apps:
                if n2 == key[0] and len(a2) == len(pts):
                    ctx.add(z3.Implies(z3.And(*[p.z() == q.z() for p, q in zip(pts, a2)]), ctx.zv[g] == ctx.zv[g2]))
            ctx.uf_apps.append((key[0], pts, g))
        return core.R.gen(g)

    CE.CellBase.quality = property(quality)
    META["stubs"] += [
        "optimize.optimizer: scipy.optimize.minimize -> demonic (objective evaluated at arbitrary in-bounds parameter vectors)",
        "optimize.optimizer: scipy.optimize.approx_fprime -> two evaluations + arbitrary gradient",
        "optimize.cell: CellBase.quality -> uninterpreted function of the cell's points (>= 0), may raise ValueError "
        "(degenerate) at the solver's choice on a new state during a minimiser probe",
        "optimize.iteration/optimizer: report()/print() -> no-op"]


def install_conc():
    """replay runs the REAL optimizer (real scipy minimiser, real quality function): a violation found under the demonic
    stubs is reported only if the real library shows it too, on the counterexample's geometry or on one of 40 seeded
    perturbations of it (DESIGN.md section 5: no alarm from a stub-only behaviour)"""
    import classy_blocks.optimize.iteration as IT
    import classy_blocks.optimize.optimizer as OP

    OP.print = lambda *a, **k: None
    IT.report = lambda *a, **k: None
    IT.print = lambda *a, **k: None


def _not_worse(sx, q1, q0):
    """q1 <= q0; on the real library (doubles) up to the rounding of re-summing the same cell qualities in another order"""
    if sx.sym:
        return q1 <= q0
    return float(q1) <= float(q0) * (1 + 1e-9) + 1e-12


def _rows_equal(sx, A, B):
    return sx.all([sx.close(x, y, 1e-9) for a, b in zip(A, B) for x, y in zip(a, b)])


def run_sketch(sx, name, scenario, iterations=1, probes=1):
    if sx.sym:
        return _run_sketch(sx, name, scenario, iterations, probes, None)
    import random
    rnd = random.Random(12345)
    out = None
    for attempt in range(41):
        nfail = len(sx.failed)
        jitter = None if attempt == 0 else [[rnd.uniform(-0.25, 0.25) for _ in range(2)] for _ in range(64)]
        out = _run_sketch(sx, name, scenario, max(iterations, 3), probes, jitter)
        if len(sx.failed) > nfail:
            sx.note("real_run_attempt", attempt)
            break
    return out


def _run_sketch(sx, name, scenario, iterations, probes, jitter):
    from symx import stubs_opt
    stubs_opt.reset()
    _STATE.update(probes=probes, allow_degenerate=False, nq=0, pinned=None)
    base, quads = c15.MAPS[name]()
    P0 = c15._sym_positions(sx, base, 2)
    if jitter is not None:
        P0 = np.array([[p[0] + jitter[i][0], p[1] + jitter[i][1], p[2]] for i, p in enumerate(P0)])
    relation = None
    if scenario == "radial+rotlink" and jitter is None:
        # concrete uneven positions: what is quantified here is the optimizer's call sequence (which pinned turns the
        # minimiser tries, in which order, with which quality verdicts), not the geometry
        P0 = sx.arr([[sx.const(Fraction(p[0]) + Fraction((7 * i) % 5 - 2, 20)), sx.const(Fraction(p[1]) + Fraction((3 * i) % 7 - 3, 30)),
                      sx.const(0)] for i, p in enumerate(base)])
    if scenario in ("free+symlink", "radial+rotlink"):
        _b, _nb = c15.topology(quads, 2)
        _int = [i for i in range(len(base)) if i not in _b]
        lead_, fol_ = _int[0], _int[-1]
        if scenario == "free+symlink":
            fol_ = _int[1]      # the interior point next to the leader across the plane x = 1.5: its mirror image keeps the sketch valid
            # the follower starts as the mirror image of the leader about the plane x = 1.5
            P0[fol_] = np.array([3 - P0[lead_][0], P0[lead_][1], P0[lead_][2]], dtype=P0.dtype)
    sketch = cb.MappedSketch(P0, quads)
    opt = SketchOptimizer(sketch, report=False)
    boundary, nb = c15.topology(quads, 2)
    interior = [i for i in range(len(base)) if i not in boundary]
    clamps, links = {}, []
    lead = interior[0]
    if scenario == "free":
        clamps[lead] = cb.FreeClamp(P0[lead])
    elif scenario == "line":
        a = np.array(P0[lead], dtype=P0.dtype)
        clamps[lead] = cb.LineClamp(a, a, a + sx.vec(1.0, 0.5, 0.0), (0, Fraction(1, 2)))
    elif scenario == "free+2links":
        clamps[lead] = cb.FreeClamp(P0[lead])
        others = [i for i in range(len(base)) if i != lead][:2]
        links = [(lead, j, cb.TranslationLink(P0[lead], P0[j])) for j in others]
    elif scenario == "free+symlink":
        clamps[lead] = cb.FreeClamp(P0[lead])
        fol = interior[1]
        links = [(lead, fol, cb.SymmetryLink(P0[lead], P0[fol], [2, 0, 0], [1.5, -3, 0.5]))]
        relation = lambda G: [3 - G[lead][0], G[lead][1], G[lead][2]]
    elif scenario == "radial+rotlink":
        o = sx.vec(1.5, 1.5, 0)
        clamps[lead] = cb.RadialClamp(P0[lead], o, [0, 0, 2])
        fol = interior[-1]
        links = [(lead, fol, cb.RotationLink(P0[lead], P0[fol], [0, 0, 3], o))]
        if sx.sym:
            d = P0[lead] - o
            from symx.shims import norm_model
            _STATE["pinned"] = {"radius": norm_model(d), "pins": {"a": (1, Fraction(3, 5), Fraction(4, 5)),
                                                                  "-a": (1, Fraction(3, 5), Fraction(-4, 5))}, "picked": []}

        def relation(G, clamp=None):
            c_ = clamps[lead]
            if sx.sym:
                cs = (Fraction(1), Fraction(0))
                for theta, c, sn in _STATE["pinned"]["picked"]:
                    if not (c_.params[0] - theta * _STATE["pinned"]["radius"]).p:
                        cs = (c, sn)
                cc, ss = sx.const(cs[0]), sx.const(cs[1])
            else:
                import math
                r = math.hypot(float(P0[lead][0]) - 1.5, float(P0[lead][1]) - 1.5)
                cc, ss = math.cos(float(c_.params[0]) / r), math.sin(float(c_.params[0]) / r)
            dx, dy = P0[fol][0] - 1.5, P0[fol][1] - 1.5
            return [dx * cc - dy * ss + 1.5, dx * ss + dy * cc + 1.5, P0[fol][2]]
    elif scenario == "two-clamps":
        clamps[lead] = cb.FreeClamp(P0[lead])
        other = interior[1] if len(interior) > 1 else sorted(boundary)[0]
        clamps[other] = cb.FreeClamp(P0[other])
    for c in clamps.values():
        opt.add_clamp(c)
    for (_, _, l) in links:
        opt.add_link(l)
    tag = f"{name}/{scenario}"
    crashed = None
    try:
        q0 = opt.grid.quality
        opt.optimize(max_iterations=iterations, tolerance=0.1 if sx.sym else 1e-6, method="SLSQP")
        q1 = opt.grid.quality
    except ValueError as e:
        # concrete runs only (ground twins, replays): the sketch handed to the optimiser is valid by construction (unit quads,
        # jitter <= 0.3), so a degenerate cell was made by the library itself (e.g. a link that put its follower elsewhere);
        # that is not a better grid, and the remaining obligations are judged on the grid as it stands
        if sx.sym or "Degenerate" not in str(e):
            raise
        crashed = str(e)[:80]
    sx.reach("optimized")
    if crashed:
        sx.prove(False, f"{tag}: summed quality after optimize() is not worse than before (the grid became degenerate: {crashed})",
                 f"C13:quality:{scenario}", info={"exception": crashed})
    else:
        sx.prove(_not_worse(sx, q1, q0), f"{tag}: summed quality after optimize() is not worse than before", f"C13:quality:{scenario}")
    G = opt.grid.points
    followers = {j for (_, j, _) in links}
    still = [i for i in range(len(base)) if i not in clamps and i not in followers]
    sx.prove(_rows_equal(sx, [G[i] for i in still], [P0[i] for i in still]),
             f"{tag}: vertices without clamp or link did not move", f"C13:unclamped-moved:{scenario}")
    conds = []
    for i, c in clamps.items():
        conds.append(_rows_equal(sx, [G[i]], [c.function(c.params)]))
        conds.append(_rows_equal(sx, [G[i]], [c.position]))
        if c.bounds is not None:
            for p, (lo, hi) in zip(c.params, c.bounds):
                conds += [p >= lo, p <= hi]
    sx.prove(sx.all(conds), f"{tag}: every clamped vertex sits at its clamp's position, parameters inside the bounds",
             f"C13:clamp-position:{scenario}")
    if links and relation is None:
        sx.prove(sx.all([_rows_equal(sx, [G[j]], [G[i] + (P0[j] - P0[i])]) for (i, j, _) in links]),
                 f"{tag}: linked vertices keep their translation to the leader", f"C13:link-relation:{scenario}")
    elif links:
        sx.prove(_rows_equal(sx, [G[links[0][1]]], [relation(G)]), f"{tag}: the linked vertex keeps its "
                 f"{'mirror' if 'sym' in scenario else 'rotation'} relation to the leader", f"C13:link-relation:{scenario}")
    # copy-back
    conds = []
    for q, face in zip(quads, sketch.faces):
        for k in range(4):
            conds.append(_rows_equal(sx, [face.points[k].position], [G[q[k]]]))
    sx.prove(sx.all(conds), f"{tag}: sketch faces equal the optimizer's final positions", f"C13:copy-back:{scenario}")
    return "optimized"


def run_clamp_step(sx, name, degenerate_ok=True):
    """one optimize_clamp call: either the grid quality improved or the whole grid is back where it was"""
    from symx import stubs_opt
    stubs_opt.reset()
    _STATE.update(probes=2, allow_degenerate=False, nq=0)
    base, quads = c15.MAPS[name]()
    P0 = c15._sym_positions(sx, base, 2)
    sketch = cb.MappedSketch(P0, quads)
    opt = SketchOptimizer(sketch, report=False)
    boundary, _ = c15.topology(quads, 2)
    lead = [i for i in range(len(base)) if i not in boundary][0]
    clamp = cb.FreeClamp(P0[lead])
    opt.add_clamp(clamp)
    follower = sorted(boundary)[0]
    opt.add_link(cb.TranslationLink(P0[lead], P0[follower]))
    q0 = opt.grid.quality
    before = [np.array(p, dtype=p.dtype) for p in opt.grid.points]
    nq0 = _STATE["nq"]
    opt.optimize_clamp(clamp, "SLSQP")
    q1 = opt.grid.quality
    G = opt.grid.points
    same = _rows_equal(sx, G, before)
    sx.reach("optimized")
    if sx.sym:
        import z3 as _z
        rolled = same is True or (hasattr(same, "e") and sx.ctx.check(_z.Not(same.e)) == "unsat")
        if rolled:
            sx.reach("rollback")
    sx.prove(sx.any([q1 < q0, same]), f"{name}: after optimize_clamp either the grid quality improved or every row is back "
             "at its previous value (also after a degenerate probe)", "C13:rollback")
    sx.prove(_not_worse(sx, q1, q0), f"{name}: optimize_clamp does not worsen the grid quality", "C13:step-quality")
    return "step"


def run_mesh(sx, scenario, probes=1):
    from symx import stubs_opt
    stubs_opt.reset()
    _STATE.update(probes=probes, allow_degenerate=False, nq=0)
    o = [sx.real(f"o{i}", -2, 2) for i in range(3)]
    boxes = [cb.Box([o[0] + i, o[1], o[2]], [o[0] + i + 1, o[1] + 1, o[2] + 1]) for i in range(2)]
    mesh = cb.Mesh()
    for b in boxes:
        mesh.add(b)
    mesh.assemble()
    shared = [v.index for v in mesh.blocks[0].vertices if v in mesh.blocks[1].vertices]
    lead = 0 if scenario.endswith("vertex0") else shared[0]        # (vertex 0: the first corner of the first block)
    # the clamped vertex starts off its best position, so that a real minimiser has something to improve
    mesh.vertices[lead].move_to(mesh.vertices[lead].position + sx.vec(0.3, 0.2, -0.25))
    P0 = [np.array(v.position, dtype=v.position.dtype) for v in mesh.vertices]
    opt = MeshOptimizer(mesh, report=False)
    a = P0[lead]
    clamp = cb.LineClamp(a, a, a + sx.vec(0.0, 1.0, 1.0), (0, Fraction(1, 4))) if scenario == "line" else cb.FreeClamp(a)
    opt.add_clamp(clamp)
    q0 = opt.grid.quality
    opt.optimize(max_iterations=1, method="L-BFGS-B")
    sx.reach("optimized")
    q1 = opt.grid.quality
    sx.prove(_not_worse(sx, q1, q0), f"mesh/{scenario}: summed quality is not worse", f"C13:quality:mesh-{scenario}")
    G = opt.grid.points
    still = [i for i in range(len(P0)) if i != lead]
    sx.prove(_rows_equal(sx, [G[i] for i in still], [P0[i] for i in still]), f"mesh/{scenario}: only the clamped vertex moved",
             f"C13:unclamped-moved:mesh-{scenario}")
    sx.prove(_rows_equal(sx, [v.position for v in mesh.vertices], G), f"mesh/{scenario}: mesh vertices equal the optimizer's "
             "final positions", f"C13:copy-back:mesh-{scenario}")
    if scenario == "line":
        d = G[lead] - a
        # on the line through a with direction (0,1,1), parameter within [0, 1/4]
        sx.prove(sx.all([sx.close(d[0], 0, 1e-9), sx.close(d[1], d[2], 1e-9), d[1] >= sx.const(-1e-9),
                         d[1] * d[1] * 2 <= sx.const(1 / 16 + 1e-9)]),
                 "mesh/line: the clamped vertex stays on its line inside the bounds", "C13:clamp-position:mesh-line")
    return "optimized"


def jobs(tier, seed):
    js = []

    def add(fn, jobname, **p):
        js.append({"name": jobname, "fn": fn, "params": p, "budget_s": 280 if tier == "quick" else 1500})

    for sc in ("free", "line", "free+2links", "two-clamps", "free+symlink", "radial+rotlink"):
        add("run_sketch", f"sketch|2x2|{sc}", name="2x2" if sc in ("free", "line", "free+2links") else "3x3", scenario=sc)
    add("run_sketch", "sketch|3x3|free|2 iterations", name="3x3", scenario="free", iterations=2)
    add("run_clamp_step", "clamp-step|2x2", name="2x2")
    add("run_clamp_step", "clamp-step|disk", name="disk")
    for sc in ("free", "line", "free-vertex0"):
        add("run_mesh", f"mesh|2 boxes|{sc}", scenario=sc)
    if tier == "thorough":
        for sc in ("free", "free+2links", "two-clamps"):
            add("run_sketch", f"sketch|3x3|{sc}|2 probes", name="3x3", scenario=sc, probes=2, iterations=2)
    return js
