"""Prototype 2: reals as canonical Laurent polynomials over Q (probe only, not the framework)."""
import math
from fractions import Fraction
import numpy as np
import z3


class Infeasible(BaseException):
    pass


class Gen:
    """registry of generators"""

    def __init__(self):
        self.names = []
        self.z3 = []
        self.positive = set()
        self.memo = {}

    def new(self, name, positive=False):
        i = len(self.names)
        self.names.append(name)
        self.z3.append(z3.Real(name))
        if positive:
            self.positive.add(i)
        return i


G = Gen()


class Ctx:
    cur = None

    def __init__(self):
        self.cons = []   # list of (z3 expr, frozenset(varnames))
        self.prefix = []
        self.pos = 0
        self.trail = []
        self.nsolve = 0
        self.tsolve = 0.0

    def add(self, e):
        self.cons.append((e, frozenset(_vars(e))))

    def check(self, *extra):
        import time
        self.nsolve += 1
        need = set()
        for e in extra:
            need |= _vars(e)
        chosen, rest, changed = [], self.cons, True
        while changed:
            changed = False
            nxt = []
            for c, vs in rest:
                if vs & need or not vs:
                    chosen.append(c)
                    if not vs <= need:
                        need |= vs
                        changed = True
                else:
                    nxt.append((c, vs))
            rest = nxt
        s = z3.Solver()
        s.set("timeout", 20000)
        s.add(*chosen)
        t = time.time()
        r = str(s.check(*extra))
        self.tsolve += time.time() - t
        self.last = s
        return r

    def branch(self, cond):
        cond = z3.simplify(cond)
        if z3.is_true(cond):
            return True
        if z3.is_false(cond):
            return False
        if self.pos < len(self.prefix):
            d, alt = self.prefix[self.pos]
            self.pos += 1
            self.add(cond if d else z3.Not(cond))
            self.trail.append((d, alt))
            return d
        can_t = self.check(cond)
        can_f = self.check(z3.Not(cond))
        if "unknown" in (can_t, can_f):
            raise RuntimeError(f"unknown feasibility for {str(cond)[:300]}")
        if can_t == "sat" and can_f == "sat":
            d, alt = True, True
        elif can_t == "sat":
            d, alt = True, False
        elif can_f == "sat":
            d, alt = False, False
        else:
            raise Infeasible()
        self.trail.append((d, alt))
        self.pos += 1
        self.prefix.append((d, alt))
        self.add(cond if d else z3.Not(cond))
        return d


_VCACHE = {}


def _vars(e):
    key = e.get_id()
    if key in _VCACHE:
        return _VCACHE[key]
    out, stack, seen = set(), [e], set()
    while stack:
        x = stack.pop()
        if x.get_id() in seen:
            continue
        seen.add(x.get_id())
        if z3.is_const(x) and x.decl().kind() == z3.Z3_OP_UNINTERPRETED:
            out.add(x.decl().name())
        else:
            stack.extend(x.children())
    _VCACHE[key] = out
    return out


def explore(fn, assumptions=(), max_paths=100000):
    prefix = []
    n = 0
    while True:
        ctx = Ctx()
        for a in assumptions:
            ctx.add(a)
        ctx.prefix = list(prefix)
        Ctx.cur = ctx
        G.memo_ctx = {}
        try:
            yield ctx, fn(ctx), None
        except Infeasible:
            pass
        except Exception as ex:
            yield ctx, None, ex
        n += 1
        tr = ctx.trail
        i = len(tr) - 1
        while i >= 0 and not tr[i][1]:
            i -= 1
        if i < 0 or n >= max_paths:
            return
        prefix = [tr[j] for j in range(i)] + [(not tr[i][0], False)]


class B:
    __slots__ = ("e",)

    def __init__(self, e):
        self.e = e

    def __bool__(self):
        return Ctx.cur.branch(self.e)


def _frac(x):
    if isinstance(x, Fraction):
        return x
    if isinstance(x, (bool, np.bool_)):
        return Fraction(int(x))
    if isinstance(x, (int, np.integer)):
        return Fraction(int(x))
    if isinstance(x, (float, np.floating)):
        return Fraction(float(x))
    raise TypeError(type(x))


def _mmul(m1, m2):
    if not m1:
        return m2
    if not m2:
        return m1
    d = dict(m1)
    for g, e in m2:
        v = d.get(g, 0) + e
        if v:
            d[g] = v
        else:
            d.pop(g, None)
    return tuple(sorted(d.items()))


class R:
    __slots__ = ("p",)

    def __init__(self, p):
        if isinstance(p, dict):
            self.p = p
        elif isinstance(p, R):
            self.p = p.p
        else:
            f = _frac(p)
            self.p = {(): f} if f else {}

    @staticmethod
    def gen(i):
        return R({((i, 1),): Fraction(1)})

    @staticmethod
    def lift(x):
        if isinstance(x, R):
            return x
        try:
            return R(x)
        except TypeError:
            return NotImplemented

    def concrete(self):
        if not self.p:
            return Fraction(0)
        if len(self.p) == 1 and () in self.p:
            return self.p[()]
        return None

    # arithmetic
    def __add__(s, o):
        o = R.lift(o)
        if o is NotImplemented:
            return o
        d = dict(s.p)
        for m, c in o.p.items():
            v = d.get(m, 0) + c
            if v:
                d[m] = v
            else:
                d.pop(m, None)
        return R(d)

    __radd__ = __add__

    def __neg__(s):
        return R({m: -c for m, c in s.p.items()})

    def __pos__(s):
        return s

    def __sub__(s, o):
        o = R.lift(o)
        if o is NotImplemented:
            return o
        return s + (-o)

    def __rsub__(s, o):
        return (-s) + o

    def __mul__(s, o):
        o = R.lift(o)
        if o is NotImplemented:
            return o
        d = {}
        for m1, c1 in s.p.items():
            for m2, c2 in o.p.items():
                m = _mmul(m1, m2)
                v = d.get(m, 0) + c1 * c2
                if v:
                    d[m] = v
                else:
                    d.pop(m, None)
        return R(d)

    __rmul__ = __mul__

    def inv(s):
        if len(s.p) == 1:
            (m, c), = s.p.items()
            for g, e in m:
                if g not in G.positive:
                    if not Ctx.cur.branch(G.z3[g] != 0):
                        raise ZeroDivisionError("symbolic zero division")
            return R({tuple((g, -e) for g, e in m): 1 / c})
        if not s.p:
            raise ZeroDivisionError
        key = ("inv", frozenset(s.p.items()))
        g = G.memo_ctx.get(key)
        if g is None:
            if not Ctx.cur.branch(s.z() != 0):
                raise ZeroDivisionError("symbolic zero division")
            g = G.new(f"inv!{len(G.names)}")
            Ctx.cur.add(G.z3[g] * s.z() == 1)
            G.memo_ctx[key] = g
        return R.gen(g)

    def __truediv__(s, o):
        o = R.lift(o)
        if o is NotImplemented:
            return o
        return s * o.inv()

    def __rtruediv__(s, o):
        return R.lift(o) * s.inv()

    def __pow__(s, k):
        if isinstance(k, R):
            k = k.concrete()
        if isinstance(k, (float, Fraction)) and k == int(k):
            k = int(k)
        if isinstance(k, (int, np.integer)):
            k = int(k)
            if k < 0:
                return s.inv() ** (-k)
            r, b = R(1), s
            while k:
                if k & 1:
                    r = r * b
                b = b * b
                k >>= 1
            return r
        if k == 0.5:
            return s.sqrt()
        raise TypeError(f"pow {k}")

    def sqrt(s):
        c = s.concrete()
        if c is not None:
            if c < 0:
                raise ValueError("sqrt of negative")
            n, d = math.isqrt(c.numerator), math.isqrt(c.denominator)
            if n * n == c.numerator and d * d == c.denominator:
                return R(Fraction(n, d))
            S = 10 ** 40   # rational approximation of a concrete irrational root, error < 1e-40
            return R(Fraction(math.isqrt(c.numerator * S * S // c.denominator), S))
        # factor out even powers of positive generators common to all monomials
        out = R(1)
        p = s.p
        for g in G.positive:
            exps = [dict(m).get(g, 0) for m in p]
            e = min(exps)
            e -= e % 2
            if e:
                p = {_mmul(m, ((g, -e),)): c for m, c in p.items()}
                out = out * R({((g, e // 2),): Fraction(1)})
        rest = R(p)
        if rest.concrete() is not None:
            return out * rest.sqrt()
        return out * _sqrt_gen(rest)

    # comparisons
    def z(s):
        terms = []
        for m, c in s.p.items():
            t = z3.RealVal(str(c))
            for g, e in m:
                x = G.z3[g]
                if e > 0:
                    for _ in range(e):
                        t = t * x
                else:
                    for _ in range(-e):
                        t = t / x
            terms.append(t)
        if not terms:
            return z3.RealVal(0)
        return z3.Sum(terms) if len(terms) > 1 else terms[0]

    def _cmp(s, o, f):
        o = R.lift(o)
        if o is NotImplemented:
            return o
        d = s - o
        c = d.concrete()
        if c is not None:
            return f(c, 0)
        return B(f(d.z(), 0))

    def __lt__(s, o): return s._cmp(o, lambda a, b: a < b)
    def __le__(s, o): return s._cmp(o, lambda a, b: a <= b)
    def __gt__(s, o): return s._cmp(o, lambda a, b: a > b)
    def __ge__(s, o): return s._cmp(o, lambda a, b: a >= b)
    def __eq__(s, o): return s._cmp(o, lambda a, b: a == b)
    def __ne__(s, o): return s._cmp(o, lambda a, b: a != b)
    __hash__ = None

    def __abs__(s):
        return s if (s >= 0) else -s

    def __float__(s):
        c = s.concrete()
        if c is None:
            raise TypeError("float() of symbolic")
        return float(c)

    def __repr__(s):
        c = s.concrete()
        return f"R({float(c)})" if c is not None else f"R<{len(s.p)} terms>"

    def __format__(s, spec):
        c = s.concrete()
        return format(float(c), spec) if c is not None else "<sym>"

    def conjugate(s):
        return s

    @property
    def real(s):
        return s

    def _uf(s, name):
        c = s.concrete()
        if c is not None and name in ("ARCCOS", "LOG10"):
            return R(getattr(math, {"ARCCOS": "acos", "LOG10": "log10"}[name])(float(c)))
        key = (name, frozenset(s.p.items()))
        g = G.memo_ctx.get(key)
        if g is None:
            g = G.new(f"{name}!{len(G.names)}")
            G.memo_ctx[key] = g
            G.uf_apps = getattr(G, "uf_apps", [])
            G.uf_apps.append((name, s, g))
        return R.gen(g)

    def arccos(s):
        return s._uf("ARCCOS")

    def log10(s):
        return s._uf("LOG10")

    def __rpow__(s, base):
        return s._uf(f"POW{base}")

    def cos(s):
        return R(math.cos(float(s)))

    def sin(s):
        return R(math.sin(float(s)))


def _sqrt_gen(r):
    key = ("sqrt", frozenset(r.p.items()))
    g = G.memo_ctx.get(key)
    if g is None:
        g = G.new(f"sqrt!{len(G.names)}", positive=False)
        import os
        if os.environ.get("DBG"):
            print("SQRTGEN", G.names[g], "terms", len(r.p), [(tuple((G.names[a], e) for a, e in m), float(c)) for m, c in list(r.p.items())[:6]])
        x = G.z3[g]
        Ctx.cur.add(z3.And(x >= 0, x * x == r.z()))
        G.memo_ctx[key] = g
    return R.gen(g)


def lift_arr(a):
    a = np.asarray(a)
    out = np.empty(a.shape, dtype=object)
    for idx in np.ndindex(a.shape):
        v = a[idx]
        out[idx] = v if isinstance(v, R) else R(v)
    return out


def rodrigues(axis, theta):
    axis = lift_arr(axis)
    n = (axis[0] * axis[0] + axis[1] * axis[1] + axis[2] * axis[2]).sqrt()
    k = [a / n for a in axis]
    th = R.lift(theta)
    c, s = th.cos(), th.sin()
    K = [[R(0), -k[2], k[1]], [k[2], R(0), -k[0]], [-k[1], k[0], R(0)]]
    out = np.empty((3, 3), dtype=object)
    for i in range(3):
        for j in range(3):
            k2 = K[i][0] * K[0][j] + K[i][1] * K[1][j] + K[i][2] * K[2][j]
            out[i, j] = (R(1) if i == j else R(0)) + s * K[i][j] + (R(1) - c) * k2
    return out


def install():
    import sys
    import classy_blocks
    import classy_blocks.util.functions as F
    for name, mod in list(sys.modules.items()):
        if name.startswith("classy_blocks") and mod is not None and hasattr(mod, "DTYPE"):
            mod.DTYPE = object
    F.float = lambda x: x
    F.rotation_matrix = rodrigues

    class NpFacade:
        def __getattr__(self, name):
            return getattr(np, name)

        @staticmethod
        def isnan(x):
            x = np.asarray(x)
            if x.dtype == object:
                return np.zeros(x.shape, dtype=bool)
            return np.isnan(x)

    import classy_blocks.items.edges.arcs.origin as O
    O.np = NpFacade()
    return F
