"""Probe: can real classy_blocks numeric code run on object arrays of z3-backed reals?"""
import sys, time
import z3
import numpy as np

class R:
    __slots__ = ("e",)
    def __init__(self, e):
        if isinstance(e, R): e = e.e
        elif isinstance(e, (int, float)):
            e = z3.RealVal(repr(e)) if isinstance(e, float) else z3.RealVal(e)
        self.e = e
    @staticmethod
    def lift(x):
        if isinstance(x, R): return x
        if isinstance(x, (int, float, np.integer, np.floating)):
            from fractions import Fraction
            fr = Fraction(x) if not isinstance(x, (np.integer, np.floating)) else Fraction(x.item())
            return R(z3.RealVal(str(fr)))
        return NotImplemented
    def _b(self, o, f):
        o = R.lift(o)
        if o is NotImplemented: return NotImplemented
        return R(z3.simplify(f(self.e, o.e)))
    def __add__(s, o): return s._b(o, lambda a, b: a + b)
    def __radd__(s, o): return s._b(o, lambda a, b: b + a)
    def __sub__(s, o): return s._b(o, lambda a, b: a - b)
    def __rsub__(s, o): return s._b(o, lambda a, b: b - a)
    def __mul__(s, o): return s._b(o, lambda a, b: a * b)
    def __rmul__(s, o): return s._b(o, lambda a, b: b * a)
    def __truediv__(s, o): return s._b(o, lambda a, b: a / b)
    def __rtruediv__(s, o): return s._b(o, lambda a, b: b / a)
    def __neg__(s): return R(-s.e)
    def __pow__(s, k):
        if isinstance(k, int) and k >= 0:
            r = R(1)
            for _ in range(k): r = r * s
            return r
        if k == 0.5: return s.sqrt()
        raise TypeError(k)
    def sqrt(s):
        v = z3.simplify(s.e)
        if z3.is_rational_value(v):
            from fractions import Fraction
            import math
            fr = Fraction(v.numerator_as_long(), v.denominator_as_long())
            n, d = math.isqrt(fr.numerator), math.isqrt(fr.denominator)
            if n*n == fr.numerator and d*d == fr.denominator:
                return R(z3.RealVal(str(Fraction(n, d))))
        global _k
        _k += 1
        r = z3.Real(f"sqrt!{_k}")
        AX.append(z3.And(r >= 0, r * r == s.e))
        return R(r)
    def __repr__(s): return f"R({s.e})"
    def __lt__(s, o): raise RuntimeError("branch")
    def __float__(s): raise RuntimeError("float() on symbolic")
_k = 0
AX = []

import classy_blocks.util.constants as C
C.DTYPE = object
import classy_blocks.util.functions as F
F.float = lambda x: x

def vec(name):
    return np.array([R(z3.Real(f"{name}{i}")) for i in "xyz"], dtype=object)

p, o = vec("p"), vec("o")
n = np.array([R(2), R(4), R(4)], dtype=object)  # |n| = 6
t0 = time.time()
print("norm(n) =", F.norm(n))
print("unit =", F.unit_vector(n))
q = F.scale(p, R(z3.Real("k")), o)
print("scale ok", q[0])
try:
    m = F.mirror(np.array(list(p), dtype=object), n, o)
    print("mirror ok", m[0])
except Exception as ex:
    print("mirror fail", type(ex), ex)

# analytic mirror: p - 2 ((p-o).nh) nh
nh = n / R(6)
ref = p - (np.dot(p - o, nh) * R(2)) * nh
s = z3.Solver()
s.add(*AX)
s.add(z3.Or(*[m[i].e != ref[i].e for i in range(3)]))
print("mirror == reflection ?", s.check(), time.time() - t0)

# symbolic normal
ns = vec("n")
AX.clear()
t0 = time.time()
m = F.mirror(np.array(list(p), dtype=object), ns, o)
nn = np.dot(ns, ns)
ref = p - (np.dot(p - o, ns) * R(2) / nn) * ns
s = z3.Solver(); s.set("timeout", 60000)
s.add(*AX); s.add(nn.e > 0)
s.add(z3.Or(*[m[i].e != ref[i].e for i in range(3)]))
print("symbolic-normal mirror == reflection ?", s.check(), time.time() - t0)

# cross / arc_mid
try:
    c = vec("c"); a = vec("a"); b = vec("b")
    AX.clear()
    mid = F.arc_mid(np.array([R(0), R(0), R(1)], dtype=object), c, a, b)
    print("arc_mid ok", len(AX), "sqrt axioms")
except Exception as ex:
    import traceback; traceback.print_exc()
