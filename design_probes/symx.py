"""Prototype symbolic engine: z3-backed reals in numpy object arrays, re-execution DFS on branches."""
import math, time
from fractions import Fraction
import z3
import numpy as np


class Infeasible(BaseException):
    pass


class Ctx:
    cur = None

    def __init__(self, assumptions=()):
        self.solver = z3.Solver()
        self.solver.set("timeout", 20000)
        self.assumptions = list(assumptions)
        self.prefix = []      # decisions to replay
        self.pos = 0
        self.trail = []       # (cond, decision, alt_feasible)
        self.ax = []
        self.nsolve = 0
        self.k = 0

    def fresh(self, name):
        self.k += 1
        return z3.Real(f"{name}!{self.k}")

    def add_axiom(self, a):
        self.ax.append(a)
        self.solver.add(a)

    def _vars(self, e, memo={}):
        key = e.get_id()
        if key in memo:
            return memo[key]
        out = set()
        stack = [e]
        seen = set()
        while stack:
            x = stack.pop()
            if x.get_id() in seen:
                continue
            seen.add(x.get_id())
            if z3.is_const(x) and x.decl().kind() == z3.Z3_OP_UNINTERPRETED:
                out.add(x.decl().name())
            else:
                stack.extend(x.children())
        memo[key] = out
        return out

    def check(self, *extra):
        self.nsolve += 1
        cons = [(c, self._vars(c)) for c in self.solver.assertions()]
        need = set()
        for e in extra:
            need |= self._vars(e)
        chosen = []
        changed = True
        rest = cons
        while changed:
            changed = False
            nxt = []
            for c, vs in rest:
                if vs & need or not vs:
                    chosen.append(c)
                    if not vs <= need:
                        need |= vs
                        changed = True
                else:
                    nxt.append((c, vs))
            rest = nxt
        s = z3.Solver()
        s.set("timeout", 20000)
        s.add(*chosen)
        r = s.check(*extra)
        self.last = s
        return str(r)

    def branch(self, cond):
        cond = z3.simplify(cond)
        if z3.is_true(cond):
            return True
        if z3.is_false(cond):
            return False
        if self.pos < len(self.prefix):
            d, alt = self.prefix[self.pos]
            self.pos += 1
            self.solver.add(cond if d else z3.Not(cond))
            self.trail.append((cond, d, alt))
            return d
        can_t = self.check(cond)
        can_f = self.check(z3.Not(cond))
        if can_t == "unknown" or can_f == "unknown":
            raise RuntimeError(f"unknown feasibility for {cond}")
        if can_t == "sat" and can_f == "sat":
            d = True
            self.trail.append((cond, d, True))
        elif can_t == "sat":
            d = True
            self.trail.append((cond, d, False))
        elif can_f == "sat":
            d = False
            self.trail.append((cond, d, False))
        else:
            raise Infeasible()
        self.pos += 1
        self.prefix.append((d, self.trail[-1][2]))
        self.solver.add(cond if d else z3.Not(cond))
        return d


def explore(fn, assumptions=(), max_paths=10000):
    """Run fn() over all feasible paths. fn gets ctx. Yields (ctx, result_or_exception)."""
    prefix = []
    npaths = 0
    while True:
        ctx = Ctx()
        for a in assumptions:
            ctx.solver.add(a)
        ctx.prefix = list(prefix)
        Ctx.cur = ctx
        try:
            res = fn(ctx)
            yield ctx, res, None
        except Infeasible:
            pass
        except Exception as ex:
            yield ctx, None, ex
        npaths += 1
        # backtrack: find last decision with alt feasible & not yet flipped
        tr = ctx.trail
        i = len(tr) - 1
        while i >= 0 and not tr[i][2]:
            i -= 1
        if i < 0 or npaths >= max_paths:
            return
        prefix = [(t[1], t[2]) for t in tr[:i]] + [(not tr[i][1], False)]
        # mark flipped: handled since flipped prefix entries replay with alt=False


def _rat(x):
    if isinstance(x, (np.integer,)):
        x = int(x)
    if isinstance(x, (np.floating,)):
        x = float(x)
    if isinstance(x, bool):
        x = int(x)
    fr = Fraction(x)
    return z3.RealVal(str(fr))


class B:
    __slots__ = ("e",)

    def __init__(self, e):
        self.e = e

    def __bool__(self):
        return Ctx.cur.branch(self.e)

    def __and__(s, o):
        return B(z3.And(s.e, o.e if isinstance(o, B) else z3.BoolVal(bool(o))))

    def __or__(s, o):
        return B(z3.Or(s.e, o.e if isinstance(o, B) else z3.BoolVal(bool(o))))

    def __invert__(s):
        return B(z3.Not(s.e))


UF = {n: z3.Function(n, z3.RealSort(), z3.RealSort()) for n in ("COS", "SIN", "ARCCOS", "LOG", "TAN")}


SQRT_MEMO = {}
POS_SCALES = []


class R:
    __slots__ = ("_e", "sq")

    def __init__(self, e, sq=None):
        if isinstance(e, R):
            e = e.e
        elif e is not None and not isinstance(e, z3.ExprRef):
            e = _rat(e)
        self._e = e
        self.sq = sq

    @property
    def e(self):
        if self._e is None:
            ctx = Ctx.cur
            key = (id(ctx), self.sq.sexpr())
            r = SQRT_MEMO.get(key)
            if r is None:
                r = ctx.fresh("sqrt")
                ctx.add_axiom(z3.And(r >= 0, r * r == self.sq))
                SQRT_MEMO[key] = r
            self._e = r
        return self._e

    @staticmethod
    def lift(x):
        if isinstance(x, R):
            return x
        if isinstance(x, (int, float, np.integer, np.floating, Fraction)):
            return R(_rat(x))
        return NotImplemented

    def _b(self, o, f):
        o = R.lift(o)
        if o is NotImplemented:
            return NotImplemented
        return R(z3.simplify(f(self.e, o.e)))

    def _c(self, o, f):
        o = R.lift(o)
        if o is NotImplemented:
            return NotImplemented
        if self._e is None and o._e is not None:
            c = o.concrete()
            if c is not None and c > 0:
                return B(f(self.sq, _rat(c * c)))
        return B(f(self.e, o.e))

    def __add__(s, o): return s._b(o, lambda a, b: a + b)
    def __radd__(s, o): return s._b(o, lambda a, b: b + a)
    def __sub__(s, o): return s._b(o, lambda a, b: a - b)
    def __rsub__(s, o): return s._b(o, lambda a, b: b - a)
    def __mul__(s, o): return s._b(o, lambda a, b: a * b)
    def __rmul__(s, o): return s._b(o, lambda a, b: b * a)
    def __truediv__(s, o): return s._b(o, lambda a, b: a / b)
    def __rtruediv__(s, o): return s._b(o, lambda a, b: b / a)
    def __neg__(s): return R(z3.simplify(-s.e))
    def __pos__(s): return s
    def __lt__(s, o): return s._c(o, lambda a, b: a < b)
    def __le__(s, o): return s._c(o, lambda a, b: a <= b)
    def __gt__(s, o): return s._c(o, lambda a, b: a > b)
    def __ge__(s, o): return s._c(o, lambda a, b: a >= b)
    def __eq__(s, o): return s._c(o, lambda a, b: a == b)
    def __ne__(s, o): return s._c(o, lambda a, b: a != b)
    __hash__ = None

    def __abs__(s):
        v = s.concrete()
        if v is not None:
            return R(abs(v))
        return R(z3.If(s.e >= 0, s.e, -s.e))

    def concrete(s):
        v = z3.simplify(s.e)
        if z3.is_rational_value(v):
            return Fraction(v.numerator_as_long(), v.denominator_as_long())
        return None

    def __pow__(s, k):
        if isinstance(k, R):
            kc = k.concrete()
            if kc is None:
                raise TypeError("symbolic exponent")
            k = kc
        if isinstance(k, float) and k == int(k):
            k = int(k)
        if isinstance(k, (int, np.integer)):
            k = int(k)
            if k >= 0:
                r = R(1)
                for _ in range(k):
                    r = r * s
                return r
            return R(1) / (s ** (-k))
        if k == 0.5 or k == Fraction(1, 2):
            return s.sqrt()
        raise TypeError(f"pow {k}")

    def sqrt(s):
        v = s.concrete()
        if v is not None:
            n, d = math.isqrt(v.numerator), math.isqrt(v.denominator)
            if v >= 0 and n * n == v.numerator and d * d == v.denominator:
                return R(Fraction(n, d))
        rad = z3.simplify(s.e, som=True)
        for ks in POS_SCALES:
            c = z3.simplify(z3.substitute(rad, (ks, z3.RealVal(1))), som=True)
            if z3.is_rational_value(c) and z3.is_true(z3.simplify(rad == c * ks * ks, som=True)):
                return R(ks) * R(c).sqrt()
        return R(None, sq=rad)

    def _uf(s, name):
        return R(UF[name](s.e))

    def cos(s):
        v = s.concrete()
        if v is not None:
            return R(math.cos(v))
        return s._uf("COS")

    def sin(s):
        v = s.concrete()
        if v is not None:
            return R(math.sin(v))
        return s._uf("SIN")

    def arccos(s):
        v = s.concrete()
        if v is not None:
            return R(math.acos(v))
        return s._uf("ARCCOS")

    def tan(s):
        v = s.concrete()
        if v is not None:
            return R(math.tan(v))
        return s._uf("TAN")

    def __repr__(s):
        return f"R({s.e})"

    def __float__(s):
        v = s.concrete()
        if v is not None:
            return float(v)
        raise TypeError("float() on symbolic real")

    def __format__(s, spec):
        v = s.concrete()
        if v is not None:
            return format(float(v), spec)
        return f"<{s.e}>"


def sym_vec(name):
    return np.array([R(z3.Real(f"{name}_{c}")) for c in "xyz"], dtype=object)


def lift_arr(a):
    a = np.asarray(a)
    out = np.empty(a.shape, dtype=object)
    for idx in np.ndindex(a.shape):
        out[idx] = R.lift(a[idx].item() if hasattr(a[idx], "item") else a[idx])
    return out


def rodrigues(axis, theta):
    """Model of functions.rotation_matrix"""
    axis = lift_arr(axis) if not (isinstance(axis, np.ndarray) and axis.dtype == object) else axis
    n = (axis[0] * axis[0] + axis[1] * axis[1] + axis[2] * axis[2])
    n = R.lift(n).sqrt()
    k = [R.lift(a) / n for a in axis]
    th = R.lift(theta)
    c, s = th.cos(), th.sin()
    K = [[R(0), -k[2], k[1]], [k[2], R(0), -k[0]], [-k[1], k[0], R(0)]]
    out = np.empty((3, 3), dtype=object)
    for i in range(3):
        for j in range(3):
            k2 = K[i][0] * K[0][j] + K[i][1] * K[1][j] + K[i][2] * K[2][j]
            out[i, j] = (R(1) if i == j else R(0)) + s * K[i][j] + (R(1) - c) * k2
    return out


def install():
    import sys
    import classy_blocks
    import classy_blocks.util.functions as F
    for name, mod in list(sys.modules.items()):
        if name.startswith("classy_blocks") and mod is not None and hasattr(mod, "DTYPE"):
            mod.DTYPE = object
    F.float = lambda x: x
    F.rotation_matrix = rodrigues
    return F
