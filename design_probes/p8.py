"""Probe: Cylinder / shapes assembled under a symbolic similarity with Laurent-polynomial reals."""
import sys, time, z3, numpy as np
sys.path.insert(0, "/verif/design_probes")
import symx2 as sx
from symx2 import R, G, explore, lift_arr
F = sx.install()
import classy_blocks as cb
which = sys.argv[1]
kg = G.new("k", positive=True); k = R.gen(kg)
t = np.array([R.gen(G.new(f"t{c}")) for c in "xyz"], dtype=object)
assum = [G.z3[kg] >= z3.Q(1, 100), G.z3[kg] <= 1000]
Q = np.array([[1,0,0],[0,1,0],[0,0,1]], dtype=object)
if len(sys.argv) > 2:  # pinned rational rotation about (1,2,2)/3 with cos=3/5, sin=4/5
    from fractions import Fraction as Fr
    a = [Fr(1,3), Fr(2,3), Fr(2,3)]; c, s = Fr(3,5), Fr(4,5)
    K = [[0,-a[2],a[1]],[a[2],0,-a[0]],[-a[1],a[0],0]]
    Q = np.array([[ (1 if i==j else 0) + s*K[i][j] + (1-c)*sum(K[i][m]*K[m][j] for m in range(3)) for j in range(3)] for i in range(3)], dtype=object)
def place(p): return np.dot(lift_arr(Q), lift_arr(p)) * k + t
def vec(p): return np.dot(lift_arr(Q), lift_arr(p)) * k

def run(ctx):
    m = cb.Mesh()
    if which == "boxes":
        m.add(cb.Box(place([0,0,0]), place([1,1,1]))); m.add(cb.Box(place([1,0,0]), place([2,1,1])))
    elif which == "cyl":
        m.add(cb.Cylinder(place([0,0,0]), place([0,0,2]), place([1,0,0])))
    elif which == "ring":
        m.add(cb.ExtrudedRing(place([0,0,0]), place([0,0,2]), place([1,0,0]), k * 0.5))
    elif which == "frustum":
        m.add(cb.Frustum(place([0,0,0]), place([0,0,2]), place([1,0,0]), k * 0.5))
    m.assemble()
    return m

t0 = time.time(); n = 0
for ctx, res, ex in explore(run, assum, max_paths=20):
    n += 1
    if ex is not None:
        import traceback; traceback.print_exception(ex); break
    print("path", n, "decisions", len(ctx.trail), "solver calls", ctx.nsolve, f"solver {ctx.tsolve:.1f}s", "verts", len(res.vertices), "edges", len(res.edge_list.edges), "gens", len(G.names), f"wall {time.time()-t0:.1f}s")
