"""Probe ASM: Mesh.write under symbolic similarity with a token number formatter; clear + second write (C12)."""
import sys, time, z3, numpy as np, re, os
sys.path.insert(0, "/verif/design_probes")
import symx2 as sx
from symx2 import R, G, explore, lift_arr
F = sx.install()
import classy_blocks as cb
import classy_blocks.util.constants as C
import classy_blocks.grading.relations as rel
import classy_blocks.grading.chop as chopmod
TOK = []
def vfmt(v):
    TOK.append([R.lift(x) for x in v]); return f"(@{len(TOK)-1})"
for name, mod in list(sys.modules.items()):
    if name.startswith("classy_blocks") and hasattr(mod, "vector_format"): mod.vector_format = vfmt
def _validate_count(count, condition):
    op = condition.rstrip("0123456789."); num = float(condition[len(op):])
    if not {">=": count >= num, ">": count > num}[op]: raise ValueError
rel._validate_count = _validate_count
kg = G.new("k", positive=True); k = R.gen(kg)
t = np.array([R.gen(G.new(f"t{c}")) for c in "xyz"], dtype=object)
assum = [G.z3[kg] >= z3.Q(1, 100), G.z3[kg] <= 1000]
def place(p): return lift_arr(p) * k + t
def run(ctx):
    TOK.clear()
    m = cb.Mesh()
    a = cb.Box(place([0,0,0]), place([1,1,1])); b = cb.Box(place([1,0,0]), place([2,1,1]))
    a.set_patch("left", "inlet"); b.set_patch("right", "outlet"); a.set_patch(["top", "bottom"], "walls")
    for ax in range(3): a.chop(ax, count=3 + ax)
    b.chop(0, count=7)
    m.add(a); m.add(b)
    m.modify_patch("walls", "wall")
    out = []
    for i in range(2):
        p = f"/var/tmp/probe/out{i}.txt"
        try:
            m.write(p); out.append(open(p).read())
        except Exception as ex:
            out.append(f"EXC {type(ex).__name__}: {ex}")
        if i == 0:
            m.clear()
    return out
t0 = time.time()
for ctx, res, ex in explore(run, assum, max_paths=5):
    if ex is not None:
        import traceback; traceback.print_exception(ex); break
    print("decisions", len(ctx.trail), f"wall {time.time()-t0:.1f}s", "tokens", len(TOK))
    for i, txt in enumerate(res):
        body = txt.split("// * * *")[1] if "// * * *" in txt else txt
        print(f"--- write {i}:", [l.strip() for l in body.splitlines() if l.strip().startswith(("hex", "type", "EXC"))][:6])
