"""Probe: grading propagation with symbolic chop flags/counts and symbolic set iteration order."""
import time, z3, numpy as np, sys, itertools
import symx
from symx import R, B, Ctx, explore
import classy_blocks as cb
import classy_blocks.grading.chop as chopmod
import classy_blocks.grading.relations as rel
import classy_blocks.grading.grading as gradmod
import classy_blocks.items.wires.axis as axismod
import classy_blocks.items.wires.wire as wiremod
import classy_blocks.items.wires.manager as mgrmod
from classy_blocks.base.exceptions import UndefinedGradingsError, InconsistentGradingsError

# --- shims -----------------------------------------------------------------
def _int(x):
    return x if isinstance(x, R) else int(x)
chopmod.int = _int
def _validate_count(count, condition):
    op = condition.rstrip("0123456789.")
    num = float(condition[len(op):])
    ok = {">=": count >= num, ">": count > num, "==": count == num, "!=": count != num, "<=": count <= num, "<": count < num}[op]
    if not ok:
        raise ValueError("count condition")
rel._validate_count = _validate_count
_real_pow = pow
class One(int):
    pass

class ChoiceSet:
    """set whose iteration order is a symbolic permutation fixed at first iteration after each mutation"""
    def __init__(self):
        self.items = []
        self.order = None
    def add(self, x):
        if not any(x is y for y in self.items):
            self.items.append(x); self.order = None
    def __len__(self): return len(self.items)
    def __iter__(self):
        if self.order is None:
            remaining = list(range(len(self.items))); order = []
            ctx = Ctx.cur
            while len(remaining) > 1:
                # choose next: symbolic int
                ctx.k += 1
                v = z3.Int(f"pick!{ctx.k}")
                ctx.solver.add(v >= 0, v < len(remaining))
                idx = None
                for j in range(len(remaining) - 1):
                    if ctx.branch(v == j):
                        idx = j; break
                if idx is None: idx = len(remaining) - 1
                order.append(remaining.pop(idx))
            order += remaining
            self.order = order
        return iter([self.items[i] for i in self.order])
axismod.set = ChoiceSet
wiremod.set = ChoiceSet

calls = {"n": 0}
class NonTermination(Exception): pass
from classy_blocks.items.block import Block
_orig_copy = Block.copy_grading
def counted(self):
    calls["n"] += 1
    if calls["n"] > 200: raise NonTermination()
    return _orig_copy(self)
Block.copy_grading = counted

# R needs hash for set(counts)
R.__hash__ = lambda s: 0
# 1 ** R
R.__rpow__ = lambda s, base: (R(1) if base == 1 else (_ for _ in ()).throw(TypeError("rpow")))

NB = int(sys.argv[1])
def run(ctx):
    calls["n"] = 0
    m = cb.Mesh()
    ops = []
    for i in range(NB):
        op = cb.Box([i, 0, 0], [i + 1, 1, 1]); ops.append(op); m.add(op)
    m.assemble()
    flags = {}
    for b, blk in enumerate(m.blocks):
        for ax in range(3):
            f = z3.Bool(f"chop_{b}_{ax}")
            if ctx.branch(f):
                n = z3.Int(f"n_{b}_{ax}")
                ctx.solver.add(n >= 1, n <= 6)
                blk.chop(ax, cb.grading.chop.Chop(count=R(z3.ToReal(n))))
                flags[(b, ax)] = n
    try:
        m.grade()
        return ("ok", flags, m)
    except UndefinedGradingsError:
        return ("undefined", flags, None)
    except InconsistentGradingsError:
        return ("inconsistent", flags, None)
    except NonTermination:
        return ("nonterm", flags, None)

t0 = time.time(); stats = {}
viol = 0
for ctx, res, ex in explore(run, [], max_paths=200000):
    if ex is not None:
        import traceback; traceback.print_exception(ex); break
    kind, flags, m = res
    stats[kind] = stats.get(kind, 0) + 1
    if kind == "ok":
        # assertion: coincident wires have equal count
        for blk in m.blocks:
            for w in blk.wire_list:
                for c in w.coincidents.items:
                    a, b = w.grading.count, c.grading.count
                    a = R.lift(a); b = R.lift(b)
                    if ctx.check(a.e != b.e) == "sat":
                        viol += 1
                        if viol <= 2:
                            mdl = ctx.solver.model()
                            print("VIOL", {k: mdl.eval(v) for k, v in flags.items()}, blk.index, w)
                        break
                else: continue
                break
            else: continue
            break
print(NB, "blocks:", stats, "violating paths", viol, "time", round(time.time() - t0, 1))
