from p3 import *
def norm_pres_no_c(s):
    s.add(dot(k, k) == 1)
    R = rodrigues(k, c, s_)
    s.add(dot(mv(R, v), mv(R, v)) != dot(v, v))
run("VACUITY: norm preserved w/o c2+s2=1 (expect sat)", norm_pres_no_c)
def unit_cov_full(s):
    s.add(c*c + s_*s_ == 1, dot(k, k) == 1)
    R = rodrigues(k, c, s_)
    n1, n2 = z3.Reals("n1 n2")
    Rv = mv(R, v)
    s.add(n1 >= 0, n1*n1 == dot(v, v), n2 >= 0, n2*n2 == dot(Rv, Rv), n1 > 0)
    a = [x / n2 for x in Rv]; b = mv(R, [x / n1 for x in v])
    s.add(z3.Or(*[a[i] != b[i] for i in range(3)]))
run("unit covariance, full symbolic", unit_cov_full, 120)
# composition of two rotations then scale about origin o, vs affine map of p
k2 = z3.Reals("k2x k2y k2z"); c2, s2 = z3.Reals("c2 s2"); o = z3.Reals("ox oy oz"); o2 = z3.Reals("o2x o2y o2z")
def dist_pres(s):
    s.add(c*c + s_*s_ == 1, dot(k, k) == 1, c2*c2 + s2*s2 == 1, dot(k2, k2) == 1)
    R1 = rodrigues(k, c, s_); R2 = rodrigues(k2, c2, s2)
    def T(p):
        q = [a + b for a, b in zip(mv(R1, [a - b for a, b in zip(p, o)]), o)]
        return [a + b for a, b in zip(mv(R2, [a - b for a, b in zip(q, o2)]), o2)]
    d0 = [a - b for a, b in zip(v, w)]
    d1 = [a - b for a, b in zip(T(v), T(w))]
    s.add(dot(d0, d0) != dot(d1, d1))
run("distance preserved by 2 composed rotations about different origins, full symbolic", dist_pres, 120)
