"""Probe C14: HexCell.quality under corner renumbering with UF transcendental functions."""
import sys, time, z3, numpy as np, itertools
sys.path.insert(0, "/verif/design_probes")
import symx2 as sx
from symx2 import R, G, explore, lift_arr
F = sx.install()
from classy_blocks.optimize.cell import HexCell
import classy_blocks.optimize.cell as cellmod
NJ = int(sys.argv[1])          # number of jittered corners
cube = [[0,0,0],[1,0,0],[1,1,0],[0,1,0],[0,0,1],[1,0,1],[1,1,1],[0,1,1]]
cube = [[x*2.0, y*1.0, z*1.0] for x,y,z in cube]   # elongated along x
jit = []
pts = lift_arr(np.array(cube, dtype=float))
assum = []
for i in range(NJ):
    for c in range(3):
        g = G.new(f"j{i}{c}"); jit.append(g)
        pts[i, c] = pts[i, c] + R.gen(g)
        assum += [G.z3[g] >= z3.Q(-1, 10), G.z3[g] <= z3.Q(1, 10)]
# renumbering: rotate about z axis: new corner order so that old y becomes new x
perm_z = [1, 2, 3, 0, 5, 6, 7, 4]
perm_x = [4, 0, 3, 7, 5, 1, 2, 6]  # rotate about y? (another orientation-preserving symmetry)
def run(ctx):
    q0 = HexCell(pts, list(range(8))).quality
    q1 = HexCell(pts, perm_z).quality
    return q0, q1
t0 = time.time()
for ctx, res, ex in explore(run, assum, max_paths=50):
    if ex is not None:
        import traceback; traceback.print_exception(ex); break
    q0, q1 = res
    d = q0 - q1
    print("decisions", len(ctx.trail), "gens", len(G.names), "terms q0", len(q0.p), "diff terms", len(d.p), f"wall {time.time()-t0:.1f}s")
    if d.p:
        names = sorted({G.names[g].split('!')[0] for m in d.p for g, e in m})
        print("  differing generator kinds:", names)
