import z3, time
L, s, c, a = z3.Reals("L s c a")
n = z3.Int("n")
LOG = z3.Function("LOG", z3.RealSort(), z3.RealSort())
P1, P = z3.Reals("P1 P")   # P1 = c^(n-1), P = c^n
def q(extra, goal, name):
    S = z3.Solver(); S.set("timeout", 60000)
    S.add(L > 0, s > 0, s < L, c > 1 + z3.Q(1, 10**7), c <= 2)
    S.add(a == 1 - L / s * (1 - c))
    # code: count = int(LOG(a)/LOG(c)) + 1 ; floor semantics for positive
    x = LOG(a) / LOG(c)
    S.add(z3.ToReal(n) - 1 <= x, x < z3.ToReal(n), n >= 1)
    # axioms (ground instances)
    S.add(LOG(c) > 0)                       # c > 1
    S.add(P1 > 0, P == P1 * c)
    S.add(LOG(P1) == (z3.ToReal(n) - 1) * LOG(c), LOG(P) == z3.ToReal(n) * LOG(c))
    for u, v in ((a, P1), (a, P), (P1, a), (P, a)):
        S.add(z3.Implies(u < v, LOG(u) < LOG(v)))   # strict monotone instances
        S.add(z3.Implies(u == v, LOG(u) == LOG(v)))
    S.add(*extra)
    S.add(z3.Not(goal))
    t = time.time(); r = S.check(); print(name, r, round(time.time() - t, 2))
    if str(r) == "sat": print(S.model())
# law: with n cells and ratio c, first cell = L (c-1)/(c^n - 1) must be <= s (never coarser); with n-1 cells it'd be > s
first_n = L * (c - 1) / (P - 1)
first_n1 = L * (c - 1) / (P1 - 1)
q([], first_n <= s, "never coarser (c>1)")
q([n >= 2], first_n1 > s, "one fewer is coarser (c>1)")
q([], first_n < s * z3.Q(1,2), "VACUITY twin: expect sat")
