import time, z3, numpy as np
import symx
from symx import R, explore, sym_vec, lift_arr
F = symx.install()
import classy_blocks as cb

t = sym_vec("t"); k = R(z3.Real("k"))
assum = [k.e >= z3.Q(1,10), k.e <= 100] + [z3.And(c.e >= -1000, c.e <= 1000) for c in t]

def place(p):
    return lift_arr(p) * k + t

def run(ctx):
    cyl = cb.Cylinder(place([0,0,0]), place([0,0,2]), place([1,0,0]))
    return cyl

t0=time.time()
n=0
for ctx, res, ex in explore(run, assum, max_paths=50):
    n+=1
    if ex is not None:
        import traceback
        traceback.print_exception(ex)
        break
    print("path", n, "decisions", len(ctx.trail), "solver calls", ctx.nsolve, "ops", len(res.operations), time.time()-t0)
    print(res.operations[5].point_array[2])
