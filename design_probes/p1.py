"""CrossHair probe on discrete kernels of classy_blocks"""
from typing import List
import classy_blocks as cb
from classy_blocks.util.tools import edge_map, EdgeLocation
from classy_blocks.util import constants


def _pts():
    return [[0.0, 0.0, 0.0], [1.0, 0.0, 0.0], [1.0, 1.0, 0.0], [0.0, 1.0, 0.0]]


def reorient_picks_nearest(i: int) -> bool:
    """
    pre: 0 <= i < 4
    post: _
    """
    pts = _pts()
    face = cb.Face(pts)
    near = [pts[i][0] * 0.9 + 0.05, pts[i][1] * 0.9 + 0.05, 0.0]
    face.reorient(near)
    return bool(abs(face.points[0].position[0] - pts[i][0]) < 1e-9 and abs(face.points[0].position[1] - pts[i][1]) < 1e-9)


def shift_keeps_cycle(count: int) -> bool:
    """
    pre: -8 <= count <= 8
    post: _
    """
    face = cb.Face(_pts(), [cb.Arc([0.5, -0.1, 0]), None, cb.Project("a"), None])
    before = [(tuple(face.points[k].position), tuple(face.points[(k + 1) % 4].position), type(face.edges[k]).__name__) for k in range(4)]
    face.shift(count)
    after = [(tuple(face.points[k].position), tuple(face.points[(k + 1) % 4].position), type(face.edges[k]).__name__) for k in range(4)]
    return sorted(before) == sorted(after)


def start_corner_is_on_edge(c1: int, c2: int) -> bool:
    """
    pre: 0 <= c1 < 8 and 0 <= c2 < 8
    post: _
    """
    pair = {c1, c2}
    if pair not in [set(p) for p in constants.EDGE_PAIRS]:
        return True
    loc = edge_map[c1][c2]
    s = loc.start_corner
    if loc.side == "bottom":
        return {s, (s + 1) % 4} == pair
    if loc.side == "top":
        return {s + 4, (s + 1) % 4 + 4} == pair
    return {s, s + 4} == pair
