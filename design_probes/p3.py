import z3, time, sys

def rodrigues(k, c, s):
    kx, ky, kz = k
    K = [[0, -kz, ky], [kz, 0, -kx], [-ky, kx, 0]]
    K2 = [[sum(K[i][m] * K[m][j] for m in range(3)) for j in range(3)] for i in range(3)]
    I = [[1 if i == j else 0 for j in range(3)] for i in range(3)]
    return [[I[i][j] + s * K[i][j] + (1 - c) * K2[i][j] for j in range(3)] for i in range(3)]

def mv(M, v): return [sum(M[i][j] * v[j] for j in range(3)) for i in range(3)]
def dot(a, b): return sum(x * y for x, y in zip(a, b))
def cross(a, b): return [a[1]*b[2]-a[2]*b[1], a[2]*b[0]-a[0]*b[2], a[0]*b[1]-a[1]*b[0]]

def run(name, mk, timeout=60):
    s = z3.Solver(); s.set("timeout", timeout * 1000)
    mk(s)
    t = time.time(); r = s.check()
    print(f"{name}: {r} {time.time()-t:.2f}s"); sys.stdout.flush()

k = z3.Reals("kx ky kz"); c, s_ = z3.Reals("c s"); v = z3.Reals("vx vy vz"); w = z3.Reals("wx wy wz")

def norm_pres(s):
    s.add(c*c + s_*s_ == 1, dot(k, k) == 1)
    R = rodrigues(k, c, s_)
    s.add(dot(mv(R, v), mv(R, v)) != dot(v, v))
run("norm preserved, full symbolic", norm_pres)

def norm_pres_axis_conc(s):
    kk = [z3.Q(1,3), z3.Q(2,3), z3.Q(2,3)]
    s.add(c*c + s_*s_ == 1)
    R = rodrigues(kk, c, s_)
    s.add(dot(mv(R, v), mv(R, v)) != dot(v, v))
run("norm preserved, concrete axis, symbolic c,s", norm_pres_axis_conc)

def cross_cov(s):
    s.add(c*c + s_*s_ == 1, dot(k, k) == 1)
    R = rodrigues(k, c, s_)
    a = cross(mv(R, v), mv(R, w)); b = mv(R, cross(v, w))
    s.add(z3.Or(*[a[i] != b[i] for i in range(3)]))
run("cross covariance, full symbolic", cross_cov)

def cross_cov_conc(s):
    kk = [z3.Q(1,3), z3.Q(2,3), z3.Q(2,3)]
    s.add(c*c + s_*s_ == 1)
    R = rodrigues(kk, c, s_)
    a = cross(mv(R, v), mv(R, w)); b = mv(R, cross(v, w))
    s.add(z3.Or(*[a[i] != b[i] for i in range(3)]))
run("cross covariance, concrete axis, symbolic c,s", cross_cov_conc)

def cross_cov_pinned(s):
    kk = [z3.Q(1,3), z3.Q(2,3), z3.Q(2,3)]
    R = rodrigues(kk, z3.Q(3,5), z3.Q(4,5))
    a = cross(mv(R, v), mv(R, w)); b = mv(R, cross(v, w))
    s.add(z3.Or(*[a[i] != b[i] for i in range(3)]))
run("cross covariance, pinned", cross_cov_pinned)

# sqrt-based: unit(Rv) == R unit(v)
def unit_cov_pinned(s):
    kk = [z3.Q(1,3), z3.Q(2,3), z3.Q(2,3)]
    R = rodrigues(kk, z3.Q(3,5), z3.Q(4,5))
    n1, n2 = z3.Reals("n1 n2")
    Rv = mv(R, v)
    s.add(n1 >= 0, n1*n1 == dot(v, v), n2 >= 0, n2*n2 == dot(Rv, Rv), n1 > 0)
    a = [x / n2 for x in Rv]; b = mv(R, [x / n1 for x in v])
    s.add(z3.Or(*[a[i] != b[i] for i in range(3)]))
run("unit covariance, pinned rotation, symbolic v (sqrt vars)", unit_cov_pinned)

def unit_cov_scale(s):
    kq = z3.Real("kq")
    n1, n2 = z3.Reals("n1 n2")
    sv = [kq * x for x in v]
    s.add(kq > 0, n1 >= 0, n1*n1 == dot(v, v), n2 >= 0, n2*n2 == dot(sv, sv), n1 > 0)
    a = [x / n2 for x in sv]; b = [x / n1 for x in v]
    s.add(z3.Or(*[a[i] != b[i] for i in range(3)]))
run("unit invariance under positive scaling (sqrt vars)", unit_cov_scale)
