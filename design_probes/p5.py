import time, z3, numpy as np, sys
import symx
from symx import R, explore, sym_vec, lift_arr
F = symx.install()
import classy_blocks as cb
which = sys.argv[1]
t = sym_vec("t"); k = R(z3.Real("k")); symx.POS_SCALES.append(k.e)
assum = [k.e >= z3.Q(1,10), k.e <= 100] + [z3.And(c.e >= -1000, c.e <= 1000) for c in t]
def place(p): return lift_arr(p) * k + t

def run(ctx):
    m = cb.Mesh()
    if which == "boxes":
        m.add(cb.Box(place([0,0,0]), place([1,1,1])))
        m.add(cb.Box(place([1,0,0]), place([2,1,1])))
    else:
        m.add(cb.Cylinder(place([0,0,0]), place([0,0,2]), place([1,0,0])))
    m.assemble()
    return m

t0=time.time(); n=0
for ctx, res, ex in explore(run, assum, max_paths=50):
    n+=1
    if ex is not None:
        import traceback; traceback.print_exception(ex); break
    print("path", n, "decisions", len(ctx.trail), "solver calls", ctx.nsolve, "verts", len(res.vertices), "edges", len(res.edge_list.edges), round(time.time()-t0,1))
