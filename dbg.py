"""debug driver: run one job in-process:  .venv/bin/python dbg.py C10 project_corner"""
import sys, time, importlib
sys.setrecursionlimit(20000)
sys.path.insert(0, "/verif")
from symx import api, core, shims
prop, jobname = sys.argv[1], sys.argv[2]
mod = importlib.import_module(f"harness.{prop.lower()}")
shims.remember_originals()
shims.install(choice_sets=getattr(mod, "META", {}).get("choice_sets", False))
if hasattr(mod, "install"): mod.install()
tier = sys.argv[3] if len(sys.argv) > 3 else "quick"
job = [j for j in mod.jobs(tier, 0) if j["name"] == jobname][0]
fn = getattr(mod, job["fn"])
def run(ctx):
    sx = api.Sx("sym", ctx); api.CUR = sx; ctx.sx = sx; shims.ChoiceSet._counter = 0
    return fn(sx, **job.get("params", {}))
t0 = time.time()
def on_path(ctx, res, exc):
    print(f"path status={ctx.status} res={res} exc={exc!r} forks={[int(t[0]) for t in ctx.trail if t[2]]} branches={len(ctx.trail)} q={ctx.nqueries} gens={len(ctx.names)} t={time.time()-t0:.1f}")
    for ob in ctx.obligations:
        if ob["verdict"] not in ("discharged", "syntactic"):
            print("   ", ob["verdict"], ob["label"], ob.get("model"), (ob.get("smt") or "")[:300])
    if exc is not None and ctx.status in ("exception",):
        import traceback; traceback.print_exception(exc)
maxp = int(sys.argv[4]) if len(sys.argv) > 4 else 5
print(core.explore(run, on_path, max_paths=maxp))
print(core.STATS)
