#!/bin/bash
# usage: tools/seed_verify.sh <source dir with patch.diff demo.py meta.json> <seed name> 
# Confirms a seeded change in a fresh scratch worktree of /repo HEAD: patch applies, tests pass with it,
# demo passes without it and fails with it. Then stores it under /verif/seeded/<name>/.
set -u
SRC="$1"; NAME="$2"
WT=/tmp/sv-$NAME
git -C /repo worktree remove --force $WT 2>/dev/null
git -C /repo worktree add -q --detach $WT HEAD || exit 2
run() { (cd $WT && PYTHONPATH=$WT/src /venv/bin/python "$@"); }
res=ok
run $SRC/demo.py > /tmp/sv-$NAME.without.log 2>&1; without=$?
git -C $WT apply $SRC/patch.diff || { echo "PATCH DOES NOT APPLY"; res=fail; }
run $SRC/demo.py > /tmp/sv-$NAME.with.log 2>&1; with=$?
(cd $WT && PYTHONPATH=$WT/src /venv/bin/python -m pytest -q -p no:cacheprovider -x tests/ --deselect tests/test_construct/test_curves/test_interpolated.py::SplineInterpolatedCurveTests::test_length --deselect tests/test_optimize/test_optimizer.py::ComplexSketchTests::test_optimize > /tmp/sv-$NAME.tests.log 2>&1); tests=$?
echo "seed $NAME: demo without=$without (want 0) with=$with (want 1) tests=$tests (want 0)"
tail -3 /tmp/sv-$NAME.with.log
if [ $without -eq 0 ] && [ $with -ne 0 ] && [ $tests -eq 0 ] && [ $res = ok ]; then
  mkdir -p /verif/seeded/$NAME
  cp $SRC/patch.diff $SRC/demo.py $SRC/meta.json /verif/seeded/$NAME/
  python3 - "$NAME" <<'PY'
import json, subprocess, sys
p = f"/verif/seeded/{sys.argv[1]}/meta.json"
m = json.load(open(p))
head = subprocess.run(["git", "-C", "/repo", "log", "--format=%h", "-1"], capture_output=True, text=True).stdout.strip()
m["confirmed"] = {"how": "tools/seed_verify.sh: fresh scratch worktree of /repo HEAD, demo.py run without the patch (exit 0), "
                  "patch applied (git apply), demo.py run again (exit != 0), full test suite run with the patch "
                  "(pytest -x, the two tests that fail/flake on the pinned commit deselected): exit 0; worktree removed",
                  "repo_head": head}
json.dump(m, open(p, "w"), indent=1)
PY
  echo "CONFIRMED -> /verif/seeded/$NAME"
else
  echo "NOT CONFIRMED"
fi
git -C /repo worktree remove --force $WT
rm -f /tmp/sv-$NAME.*.log
