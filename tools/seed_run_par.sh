#!/bin/bash
# usage: tools/seed_run_par.sh <seed name> <property> [tier] [nproc]
# Like seed_run.sh, but leaves /repo alone: the seeded patch is applied to a scratch worktree of /repo HEAD and the check is
# pointed at that worktree's source (SYMX_REPO_SRC) with its outputs in a scratch directory (SYMX_OUT), so that several
# seeds can be run side by side. Records the outcome in seeded/<name>/meta.json; removes worktree and outputs.
NAME="$1"; PROP="$2"; TIER="${3:-quick}"; NPROC="${4:-5}"
cd /verif
./setup.sh || exit 2
WT=/tmp/srp-$NAME; OUT=/tmp/srp-$NAME-out
git -C /repo worktree remove --force $WT 2>/dev/null; rm -rf $OUT; mkdir -p $OUT
git -C /repo worktree add -q --detach $WT HEAD || exit 2
git -C $WT apply /verif/seeded/$NAME/patch.diff || { git -C /repo worktree remove --force $WT; exit 2; }
s=$(date +%s)
SYMX_OUT=$OUT SYMX_REPO_SRC=$WT/src SYMX_NPROC=$NPROC PYTHONPATH=$WT/src:/verif PYTHONHASHSEED=0 PYTHONDONTWRITEBYTECODE=1 \
  .venv/bin/python -m symx.main $PROP $TIER > $OUT/log 2>&1; rc=$?
e=$(date +%s)
lib=$(grep -m1 "library:" $OUT/log)
echo "seed $NAME vs check $PROP ($TIER): exit=$rc $((e-s))s $lib"
grep "VIOLATION\|HARNESS-ERROR\|obligation:" $OUT/log | cut -c1-260 | head -4
grep "tier=" $OUT/log | cut -c1-200
python3 - "$NAME" "$PROP" "$TIER" "$rc" "$((e-s))" "$OUT/log" <<'PY'
import json, re, sys, subprocess
name, prop, tier, rc, secs, logp = sys.argv[1:7]
p = f"/verif/seeded/{name}/meta.json"
m = json.load(open(p))
log = open(logp).read()
keys = sorted(set(re.findall(r"\[key ([^\]]+)\]", log)))
head = subprocess.run(["git", "-C", "/repo", "log", "--format=%h", "-1"], capture_output=True, text=True).stdout.strip()
m.setdefault("detected_by", {})[f"{prop}:{tier}"] = {
    "exit": int(rc), "seconds": int(secs), "repo_head": head, "violated_obligation_keys": keys[:8],
    "command": f"tools/seed_run_par.sh {name} {prop} {tier}  (patch applied to a scratch worktree of /repo HEAD; same as: "
               f"git -C /repo apply seeded/{name}/patch.diff; ./check {prop} {tier}; git -C /repo checkout -- .)"}
json.dump(m, open(p, "w"), indent=1)
PY
git -C /repo worktree remove --force $WT; rm -rf $OUT
