#!/usr/bin/env python3
"""Generates /verif/MANIFEST.json from the table below (single source of truth for the registered checks)."""
import json, os
HERE = os.path.dirname(os.path.dirname(os.path.abspath(__file__)))
props = [json.loads(l)["id"] for l in open(os.path.join(HERE, "properties.jsonl"))]

CHECKS = {}
NA = {}

def check(pid, text, note, technique, design_ref):
    CHECKS[pid] = {
        "property_id": pid,
        "quick_cmd": f"./check {pid} quick",
        "thorough_cmd": f"./check {pid} thorough",
        "evidence_file": f"/verif/evidence/{pid}.json",
        "replay_cmd_template": "./check --replay {path}",
        "engine": "symx",
        "level_claimed": {"category": "other", "text": text, "design_ref": design_ref},
        "level_note": note,
        "technique": technique,
    }

exec(open(os.path.join(HERE, "tools", "checks_table.py")).read())

for p in props:
    if p not in CHECKS and p not in NA:
        NA[p] = "check not built yet (work in progress; see DESIGN.md section 8 for the build order)"

manifest = {
    "version": 1,
    "setup_cmd": "./setup.sh",
    "hooks": {
        "guard": "CLASSY_BLOCKS_VERIF",
        "enable": "no source hooks: instrumentation is done by rebinding module globals of the imported classy_blocks "
                  "modules from /verif at check time (symx/shims.py); the guard variable is unused by /repo",
        "baseline_off_cmd": "cd /repo && /venv/bin/python -m pytest -ra -q -p no:cacheprovider --timeout=900 "
                            "--continue-on-collection-errors",
        "source_commits": [],
        "add_only": True,
    },
    "engines": [
        {"name": "symx", "path": "/verif/symx", "serves_properties": sorted(CHECKS),
         "kind_free_text": "bounded symbolic execution of the real Python function bodies on proxy reals/ints/bools "
                           "(canonical Laurent polynomials -> z3 terms), re-execution DFS, z3 5.1 decides every branch "
                           "and obligation, cvc5 1.4 fallback, concrete replay of every counterexample"},
    ],
    "checks": [CHECKS[p] for p in props if p in CHECKS],
    "not_applicable": [{"property_id": p, "reason": NA[p]} for p in props if p in NA],
    "notes": "Exit codes: 0 held / only known findings; 1 VIOLATION (replayed on the real code); 2 harness error "
             "(stub validation failed, nothing decided, vacuity witness missing, counterexample did not replay). "
             "Known findings: /verif/known_findings.json. After the symbolic jobs every job is re-run as a ground twin (the same "
             "harness function on the unshimmed library in doubles, inputs at range mid-points and at a seeded random point): "
             "validation of encoding and oracle, and a concrete counterexample where a defect makes the symbolic run "
             "intractable; a few jobs are ground-twin-only (listed in evidence.coverage.ground_twin_only_jobs). The thorough tier "
             "scales its per-job budgets to a wall budget of 10 min per check (SYMX_WALL_S overrides); truncated jobs are "
             "listed in the evidence. Seeded changes used to test the checks: /verif/seeded (table in DESIGN.md 9.5).",
}
json.dump(manifest, open(os.path.join(HERE, "MANIFEST.json"), "w"), indent=1)
print("checks:", sorted(CHECKS), "not_applicable:", sorted(NA))
