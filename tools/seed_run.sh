#!/bin/bash
# usage: tools/seed_run.sh <seed name> <property> [tier]  -- applies the seeded patch to /repo, runs the check, undoes it
NAME="$1"; PROP="$2"; TIER="${3:-quick}"
cd /verif
git -C /repo diff --quiet || { echo "/repo is dirty"; exit 2; }
git -C /repo apply /verif/seeded/$NAME/patch.diff || exit 2
cp -a /verif/evidence /tmp/evidence-save-$$
./check $PROP $TIER > /tmp/seedrun-$NAME-$PROP.log 2>&1; rc=$?
git -C /repo checkout -- . 
echo "seed $NAME vs check $PROP ($TIER): exit=$rc"
grep "VIOLATION\|HARNESS-ERROR\|KNOWN-FINDING\|obligation:" /tmp/seedrun-$NAME-$PROP.log | cut -c1-260 | head -8
grep "tier=" /tmp/seedrun-$NAME-$PROP.log | cut -c1-200
rm -f /tmp/seedrun-$NAME-$PROP.log
rm -rf /verif/evidence && mv /tmp/evidence-save-$$ /verif/evidence
