#!/bin/bash
# usage: tools/seed_run.sh <seed name> <property> [tier]
# applies the seeded patch to /repo, runs the check, undoes it, and records the outcome in seeded/<name>/meta.json
NAME="$1"; PROP="$2"; TIER="${3:-quick}"
cd /verif
git -C /repo diff --quiet || { echo "/repo is dirty"; exit 2; }
git -C /repo apply /verif/seeded/$NAME/patch.diff || exit 2
cp -a /verif/evidence /tmp/evidence-save-$$
s=$(date +%s)
./check $PROP $TIER > /tmp/seedrun-$NAME-$PROP.log 2>&1; rc=$?
e=$(date +%s)
git -C /repo checkout -- .
echo "seed $NAME vs check $PROP ($TIER): exit=$rc $((e-s))s"
grep "VIOLATION\|HARNESS-ERROR\|obligation:" /tmp/seedrun-$NAME-$PROP.log | cut -c1-260 | head -6
grep "tier=" /tmp/seedrun-$NAME-$PROP.log | cut -c1-200
python3 - "$NAME" "$PROP" "$TIER" "$rc" "$((e-s))" <<'PY'
import json, re, sys, subprocess
name, prop, tier, rc, secs = sys.argv[1:6]
p = f"/verif/seeded/{name}/meta.json"
m = json.load(open(p))
log = open(f"/tmp/seedrun-{name}-{prop}.log").read()
keys = sorted(set(re.findall(r"\[key ([^\]]+)\]", log)))
head = subprocess.run(["git", "-C", "/repo", "log", "--format=%h", "-1"], capture_output=True, text=True).stdout.strip()
m.setdefault("detected_by", {})[f"{prop}:{tier}"] = {"exit": int(rc), "seconds": int(secs), "repo_head": head,
                                                    "violated_obligation_keys": keys[:8],
                                                    "command": f"git -C /repo apply seeded/{name}/patch.diff; ./check {prop} {tier}; git -C /repo checkout -- ."}
json.dump(m, open(p, "w"), indent=1)
PY
rm -f /tmp/seedrun-$NAME-$PROP.log
rm -rf /verif/evidence && mv /tmp/evidence-save-$$ /verif/evidence
