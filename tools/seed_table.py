#!/usr/bin/env python3
"""Regenerates the table of seeded changes in DESIGN.md (between the SEED-TABLE markers) from seeded/*/meta.json."""
import glob
import json
import os
import re

VERIF = os.path.dirname(os.path.dirname(os.path.abspath(__file__)))


def main():
    rows = ["| seed | property | change | needs | caught by (exit, seconds) | first violated obligation keys |", "|---|---|---|---|---|---|"]
    for d in sorted(glob.glob(os.path.join(VERIF, "seeded", "*"))):
        mp = os.path.join(d, "meta.json")
        if not os.path.exists(mp):
            continue
        m = json.load(open(mp))
        det = m.get("detected_by", {})
        caught, keys = [], []
        for k, v in sorted(det.items()):
            caught.append(f"{k.replace(':', ' ')}: exit {v['exit']}, {v['seconds']} s")
            keys += v.get("violated_obligation_keys", [])[:2]
        clip = lambda s, n: (s[: n - 1] + "…") if len(s) > n else s
        esc = lambda s: s.replace("|", "\\|").replace("\n", " ")
        rows.append(f"| {os.path.basename(d)} | {m.get('property')} | {esc(clip(m.get('summary', ''), 230))} | "
                    f"{esc(clip(str(m.get('needs', '')), 200))} | "
                    f"{'; '.join(caught) or ('superseded (caught by C06 quick when it was made): ' + esc(clip(m['superseded'], 160)) if m.get('superseded') else 'not run')} | "
                    f"{esc(', '.join('`' + k + '`' for k in keys[:3]))} |")
    table = "\n".join(rows)
    p = os.path.join(VERIF, "DESIGN.md")
    s = open(p).read()
    a, b = "<!-- SEED-TABLE-BEGIN -->", "<!-- SEED-TABLE-END -->"
    if a in s:
        s = re.sub(re.escape(a) + r".*?" + re.escape(b), lambda _: a + "\n" + table + "\n" + b, s, flags=re.S)
        open(p, "w").write(s)
    else:
        print(table)


if __name__ == "__main__":
    main()
