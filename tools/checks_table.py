# table of registered checks (exec'd by mkmanifest.py)
check("C10",
      "Bounded symbolic execution of Face.shift/invert/reorient and Operation.set_patch/project_side/project_edge/"
      "project_corner/add_side_edge/get_face + Mesh.assemble on symbolic quadrilaterals/boxes; all shift counts in "
      "[-8,8], all 4 nearest corners, 6 sides, 24 ordered corner pairs, 8 corners decided by fork-on-value; geometric "
      "oracles independent of FACE_MAP/edge_map. Bounded, not a proof.",
      "floats as reals; reorient on two concrete irregular quads (+2 symbolic offsets in thorough) with a symbolic target "
      "3-vector; box axis-aligned with symbolic origin/extents; sequences of at most 2 re-indexing operations",
      "symbolic execution of the real Python code with z3 (symx), fork-on-value for selectors, concrete replay",
      "DESIGN.md 4/C10")
