# table of registered checks (exec'd by mkmanifest.py)
check("C10",
      "Bounded symbolic execution of Face.shift/invert/reorient and Operation.set_patch/project_side/project_edge/"
      "project_corner/add_side_edge/get_face + Mesh.assemble on symbolic quadrilaterals/boxes; all shift counts in "
      "[-8,8], all 4 nearest corners, 6 sides, 24 ordered corner pairs, 8 corners decided by fork-on-value; geometric "
      "oracles independent of FACE_MAP/edge_map. Bounded, not a proof.",
      "floats as reals; reorient on two concrete irregular quads (+2 symbolic offsets in thorough) with a symbolic target "
      "3-vector; box axis-aligned with symbolic origin/extents; sequences of at most 2 re-indexing operations",
      "symbolic execution of the real Python code with z3 (symx), fork-on-value for selectors, concrete replay",
      "DESIGN.md 4/C10")
check("C01",
      "Bounded symbolic execution of the real Mesh.assemble/grade path (BlockList, Block, Axis, Wire managers, Grading, Chop, "
      "relations) on lattice topologies of 2-4 (thorough: 5) unit blocks with a symbolic chop flag and a symbolic count in "
      "[1,6] per block direction and solver-chosen iteration order of every neighbour/coincident set; z3 must refute "
      "'success and two wires on one geometric edge differ', 'a wire differs from the written count' and 'success and two "
      "chops of one family differ'; selected models are graded twice (the second grading must write the same counts). "
      "Independent oracle: union-find over vertex indices.",
      "count-only chops; lattice topologies listed in evidence.bounds; loop cap as unwinding assertion; the partial-order "
      "reduction of set iteration orders is enabled only when the AST of the two consuming loops in the current source "
      "justifies it",
      "symbolic execution of the real Python code with z3 (symx); schedules as solver variables; concrete replay",
      "DESIGN.md 4/C01")
check("C02",
      "Same symbolic run as C01 judged for termination (unwinding bound on the copy step), completeness (families with "
      "agreeing chops end in success with the chop's count, families without chop end in UndefinedGradingsError), absence "
      "of spurious errors, and determinism across schedules (pairwise solver query over explored paths with equal flags). "
      "Every run grades through the real Mesh.write() into a scratch file that already holds a dictionary: a failing write "
      "must leave it untouched (no partial dictionary), a successful one must leave a complete file. Selected models are written twice: the second write must end like the first and derive the same counts.",
      "as C01; determinism is checked between explored schedules of one insertion order, order-independence by running "
      "several insertion orders/corner numberings against the same order-free oracle",
      "symbolic execution of the real Python code with z3 (symx); set-iteration schedules as solver variables; cross-path "
      "solver queries; concrete replay with forced schedules",
      "DESIGN.md 4/C02")
check("C09",
      "Bounded symbolic execution of the real translate/rotate/scale/mirror/transform/copy of Point, Array, Arc, Origin, "
      "Angle, Spline, PolyLine, DiscreteCurve, LineCurve, LinearInterpolatedCurve, Face, Loft (arc/origin/angle/spline "
      "edges), Extrude, Revolve, by method call and by transformation list, and of composite entities (Cylinder, "
      "ExtrudedRing, RevolvedRing, Hemisphere, stacks, joints, Assembly) with given and default origins; "
      "operations go through the real Mesh.assemble and Edge.third_point/length. Symbolic entity points, displacement, "
      "origin, ratio and (for point-like entities) mirror normal; pinned rational rotations. z3 must show transformed "
      "geometry == harness-written affine map of the original geometry, directions not displaced, lengths scaled, "
      "arguments unmodified, copies independent.",
      "floats as reals; rotations from the pinned set only; arccos/trig of symbolic arguments as uninterpreted functions "
      "with functional-consistency axioms; composites use a pinned mirror normal and (quick) a pinned origin",
      "symbolic execution of the real Python code with z3 (symx); differential oracle against a first-principles affine map",
      "DESIGN.md 4/C09")
check("C20",
      "One symbolic harness per documented precondition (point/edge counts, corner/axis indices and corner pairs in [-3,10], "
      "number of projection surfaces, length_ratio, inner/outer radius, lean of the radius vector along the axis for "
      "Cylinder/SemiCylinder/Frustum/Annulus, chain length, contract radius, sketch face counts, clamp/link positions at a "
      "symbolic offset from a vertex, second clamp, grade/backport before assemble). On accepted paths z3 refutes "
      "'violated beyond the margin', on rejected paths it refutes 'conforming within the margin'.",
      "the constructor body below the argument check of the round shapes is cut in symbolic mode (marker exception); "
      "ClampBase.get_params (scipy minimiser) is replaced by its exact-root contract; margins: 2*TOL / TOL/2",
      "symbolic execution of the real Python code with z3 (symx), both sides of each boundary symbolic, concrete replay",
      "DESIGN.md 4/C20")
check("C17",
      "Bounded symbolic execution of LineClamp, PlaneClamp, RadialClamp, CurveClamp (LineCurve, DiscreteCurve), "
      "ParametricSurfaceClamp, FreeClamp (construction + update_params with arbitrary symbolic parameters) and "
      "TranslationLink, RotationLink, SymmetryLink (construction, one or two leader moves, update) with symbolic "
      "positions, directions, origins; z3 shows manifold membership / the follower relation / leader untouched.",
      "clause 1 (a fresh clamp reports its creation position) is outside: scipy's minimiser is replaced by its exact-root "
      "contract; np.random.random -> arbitrary vector; rotation-link leader moves are pinned rational rotations about the "
      "link axis; radial clamp axes pinned; arccos/cos/sin as uninterpreted functions with inverse/Pythagorean axioms",
      "symbolic execution of the real Python code with z3 (symx), concrete replay",
      "DESIGN.md 4/C17")
check("C08",
      "Bounded symbolic execution of AngleEdge/OriginEdge/ArcEdge.third_point and .length (arc_from_theta, arc_from_origin, "
      "arc_mid/divide_arc, arc_length_3point) and Spline/PolyLine/Project edge lengths via the real edge factory, for "
      "end points placed on a circle by construction: symbolic centre, symbolic radius (x,y in-plane), pinned sector "
      "angles incl. reflex and negative ones, two axes (one non-unit). z3 shows third point == rotation by half the angle, "
      "length == radius*angle (three-point arcs: the arc through the given point), length >= chord. A 5.73-degree sector with radius down to 0.05 sits next to the collinearity cut-off.",
      "sector angles from the pinned set (rational half-angle cos/sin); arccos of concrete arguments evaluated numerically; "
      "chord bound of point-list edges uses ground triangle-inequality instances as lemmas; flatness != 1 outside",
      "symbolic execution of the real Python code with z3 (symx) with canonical-form reduction (exact polynomial division, "
      "perfect squares), concrete replay",
      "DESIGN.md 4/C08")
check("C14",
      "Bounded symbolic execution of HexCell/QuadCell.quality (side normals, inner angles, edge lengths, neighbour centres) on "
      "symbolic shape families; arccos/log10/pow uninterpreted with functional-consistency and ground monotonicity axioms. "
      "z3 shows equality of the quality before/after each of the 24 (4) rotational renumberings, translation, pinned "
      "rotation, uniform scaling, re-reading the same cell object after moving the grid in place, and the stretch clauses.",
      "low-dimensional shape families (not free jitter of all corners); pinned rotation; VSMALL := 0 for scale/stretch "
      "obligations; np.linalg.norm modelled as sqrt(sum of squares)",
      "symbolic execution of the real Python code with z3 (symx), uninterpreted transcendental kernels, concrete replay",
      "DESIGN.md 4/C14")
check("C05",
      "Bounded symbolic execution of Mesh.assemble(skip_edges)/_add_vertices, VertexList.add/find_unique/find_duplicated, "
      "Operation.get_patches_at_corner, PatchList.slave_patches on 2-4 unit boxes with symbolic per-corner jitter below the "
      "merge tolerance, solver-chosen insertion order and merge-call order, and scenario tables of patches and merged "
      "pairs; every tolerance comparison is decided by z3; the resulting vertex indices are compared with a harness-side "
      "partition by (lattice point, slave patches touching the corner). Thin-layer variants put a symbolic layer thickness "
      "h in [2.5 TOL, 2] between lattice planes: distinct points, however close, are distinct vertices. 'Assembled again' variants judge the vertex list after clear()+assemble() or backport() (solver's choice).",
      "layouts and scenarios as listed in evidence.bounds; jitter <= TOL/8 so that tolerance chains are transitive; the "
      "side a corner touches is derived geometrically",
      "symbolic execution of the real Python code with z3 (symx), insertion order as solver variable, concrete replay",
      "DESIGN.md 4/C05")
check("C07",
      "Bounded symbolic execution of Face(points, edges)/invert/shift, Loft, add_side_edge, Operation.edges, "
      "Frame.get_all_beams, EdgeList.add_from_operation/add/find, the edge factory, Edge.is_valid, ArcEdgeBase.is_valid, "
      "Spline/PolyLine/Arc/Angle/Project edge items and the real vertices/edges section writers, for every edge kind on "
      "all 12 edge positions (fork on value) with symbolic curve points and corner jitter; the edges section is read "
      "back by a harness parser and compared with the intent recorded at construction (polyline equality in either "
      "direction, arc point, angle-arc side, Edge.length, one entry per geometric edge, omission of straight/zero-length/"
      "collinear edges with a symbolic off-chord deviation). Edges snapped to a discrete curve that runs with or against the edge (solver's choice) are included.",
      "Mesh.write's grading is skipped (sections come from the real list writers after the real assemble); angle edges on a "
      "concrete cube with a pinned sector angle; <= 2 interior curve points; curve-snapped edges on analytic curves outside",
      "symbolic execution of the real Python code with z3 (symx), read-back parser, concrete replay",
      "DESIGN.md 4/C07")
check("C06",
      "Bounded symbolic execution of the real Mesh.write (assemble, grade, every list/item description writer, write_vtk) "
      "for template scripts of three boxes with symbolic origin/extents and solver-chosen selectors (patch sides, projected "
      "side with edges/points, deleted operation, patch-modification sequence) plus zones, default patch, merged pair, "
      "settings and geometry; the file is read back by an independent parser and every section is related to the "
      "declarations with geometric side oracles (number tokens give symbolic equality of coordinates). Further templates: "
      "corners shared by two operations projected to different geometries in every insertion order; sphere shapes "
      "(plain, translated by a symbolic vector, copied, two in one mesh) with their automatic searchableSphere geometry. The patches/zones/default/merge/settings template is written directly, after assemble()+clear() or after assemble()+backport() (solver's choice).",
      "number->text formatting is replaced by tokens in symbolic mode (the concrete replay parses the real 8-decimal text); "
      "templates of three boxes / one or two hemispheres",
      "symbolic execution of the real Python code with z3 (symx), read-back parser, concrete replay",
      "DESIGN.md 4/C06")
check("C12",
      "Bounded symbolic execution of Mesh.add/delete/assemble/clear/backport/write/modify_patch/set_default_patch and the "
      "lists' clear() on box models with symbolic placement: the history (action per step, deleted operation, moved "
      "vertex index, 3 symbolic displacement reals) is chosen by the solver; at every write the file is compared - "
      "structure syntactically, coordinates and counts by z3 - with the file a freshly built equivalent model writes "
      "(reference interpreter in the harness); after backport every operation must hold the positions of its own vertices.",
      "history length <= 3 (+ final write; the first two actions enumerated as jobs, the rest solver-chosen) on 2 boxes in quick, <= 4 on 2-3 boxes in thorough; delete takes effect at the next "
      "(re)assembly; modify_patch of a patch without faces and deleting every operation are outside; trusted: a fresh model "
      "writes what it should (C06)",
      "symbolic execution of the real Python code with z3 (symx), histories as solver variables, differential oracle, replay",
      "DESIGN.md 4/C12")
check("C03",
      "Bounded symbolic execution of Chop.calculate (closure loop), Chop.invert, Grading.add_chop/inverted and the twelve "
      "relations for symbolic length/sizes/ratios: pairs with a given count use a concrete count 1..6 (powers are "
      "polynomials, brentq replaced by its contract), size&c2c and c2c&total pairs use a symbolic integer count with log "
      "and power as uninterpreted functions under ground instances of their laws added at creation time. z3 shows: count "
      "and ratio reproduced exactly, sizes reproduced (relative 1e-6) resp. never coarser / coarser with one cell fewer, "
      "count >= 1, expansion > 0, reversal gives same count and reciprocal expansion (directly for count-based pairs and "
      "c2c&total; for every pair: invert() swaps start/end size, makes both expansions reciprocal, keeps the count), "
      "realisable parameters accepted and unrealisable ones rejected.",
      "given counts <= 6 (quick) / 12 (thorough); 2e-8 wide slivers around c2c = 1 +- TOL left out; brentq and log/pow are "
      "contracts, not the numerical routines; pairs that solve for a real-valued count (start&end, start&total, "
      "end&total) and end_size&c2c<1 only in the thorough tier",
      "symbolic execution of the real Python code with z3 (symx), uninterpreted transcendental kernels with ground axioms, "
      "concrete replay",
      "DESIGN.md 4/C03")
check("C04",
      "Bounded symbolic execution of Mesh.grade (WireChopManager.grade, Chop.copy_preserving/invert, Axis.copy_grading, "
      "WirePropagateManager.copy_neighbours/propagate_grading, Grading.inverted/__eq__, Block.format_grading) on two "
      "stacked lofts with symbolic, per-job related edge lengths, symbolic chop sizes/ratios, three preserve modes, one "
      "or two sections, aligned or x-reversed neighbour. Each wire's specification is decoded with the harness' own "
      "progression law; z3 shows equal cell sequences on shared edges, the preserved size on all eight x edges at the same "
      "geometric end, and simpleGrading only for equal gradings. Ground-twin-only jobs grade, move the vertices and grade again (preserved size on the present edge lengths; the propagated block is a recorded known finding).",
      "counts concrete (2, 3; thorough 4); brentq replaced by its contract; curved edges outside; size preserved from a "
      "ratio-defined chop only in the thorough tier",
      "symbolic execution of the real Python code with z3 (symx), independent decoding oracle, concrete replay",
      "DESIGN.md 4/C04")
check("C15",
      "Bounded symbolic execution of SketchSmoother/MeshSmoother (fix_indexes, fix_points, smooth, backport), "
      "QuadGrid.from_sketch/HexGrid.from_mesh, GridBase binding, Junction.is_boundary/add_neighbour, CellBase.boundary/"
      "add_neighbour and MappedSketch.positions with all point positions free symbolic reals and the fixed set chosen by "
      "the solver (given by index, by position, or in several calls with a solver-chosen split and order), on structured, L-shaped and disk quad maps and two hexahedral assemblies. The harness derives boundary "
      "and edge-neighbours from connectivity alone and recomputes the sweep; z3 shows unmoved boundary/fixed points, "
      "averages, fix-point, unique regular lattice, consistent copy-back. The library's own mapped sketches (SplineDisk, HalfSplineDisk, FourCoreDisk, OneCoreDisk, Oval) are judged against the same reference on concrete geometry (ground twins).",
      "maps up to 9 (thorough 12) faces, iterations <= 2 (3); sweep order = junction index order; convergence rate outside",
      "symbolic execution of the real Python code with z3 (symx), linear real arithmetic, concrete replay",
      "DESIGN.md 4/C15")
check("C19",
      "Bounded symbolic execution of Grid, ExtrudedStack/TransformedStack, LoftedShape.grid, Stack.grid/get_slice, "
      "Mesh.delete + assemble with symbolic grid corner points and height and solver-chosen indices/slice/deleted cell; "
      "Cylinder, SemiCylinder, Frustum, ExtrudedRing and the disk sketches under a symbolic scale and translation for the "
      "core/shell partition (squared-distance test against the outer radius). z3 shows grid[k][j][i] sits at column i, "
      "row j, tier k; slices return exactly the cells with that index, once; deletion removes exactly the addressed hex; "
      "for ExtrudedShape over all 12 sketch classes shape.grid[i][j] stands on sketch.grid[i][j] (bottom and top face). Deletion happens before the first assembly or after it, followed by clear(), assemble() and backport() (solver's choice).",
      "grid sizes enumerated up to 3x3x2 (thorough 4x4x3); round shapes axis-aligned (rotated placements are lifted in C11); "
      "np.linspace on symbolic scalars modelled as the affine formula",
      "symbolic execution of the real Python code with z3 (symx), fork-on-value for indices, concrete replay",
      "DESIGN.md 4/C19")
check("C13",
      "Bounded symbolic execution of OptimizerBase.optimize/optimize_iteration/optimize_clamp/_get_sensitivity, "
      "GridBase.update/quality/add_clamp/add_link, Junction.quality, ClampBase.update_params, LinkBase.update, "
      "IterationDriver, Mesh/SketchOptimizer.backport on small quad sketches and box meshes with symbolic positions under "
      "a demonic minimiser (arbitrary in-bounds probes, state left at the last probe), an arbitrary-gradient "
      "approx_fprime (clamp order = solver-chosen permutation) and an uninterpreted cell quality that may report a "
      "degenerate cell on a probe. z3 shows the quality, unmoved-vertices, clamp-position/bounds, link-relation "
      "(translation, mirror and rotation links; for the rotation link the minimiser turns a radial clamp by solver-chosen "
      "pinned angles on concrete geometry), copy-back and rollback obligations.",
      "the minimisers are contracts (bounds honoured), not the numerical algorithms; quality uninterpreted (C14 covers what "
      "it computes); 1 probe per minimisation in quick; clamp creation through the exact-root contract",
      "symbolic execution of the real Python code with z3 (symx), demonic environment stubs, scripted replay",
      "DESIGN.md 4/C13")
check("C16",
      "Bounded symbolic execution of DiscreteCurve.discretize/get_length/get_point/get_closest_param, "
      "LinearInterpolatedCurve (InterpolatorBase.params, get_point, discretize, get_length), LineCurve "
      "(discretize/get_point/AnalyticCurve.get_length) and OnCurveEdge on a discrete curve (param_start/param_end/"
      "point_array/length) with symbolic point offsets resp. symbolic parameters and query points, and of "
      "FunctionCurveBase.get_closest_param on an S-shaped polynomial AnalyticCurve with bounds that do not start at 0 "
      "(coarse guess over the discretisation + minimiser under its descent contract, 68 near-curve queries). z3 shows the "
      "end-point, through-points, additivity, polyline-length, closest-point and snapped-edge obligations.",
      "interp1d(linear) is a piecewise-linear model (validated against scipy each run); interpolated curves use concrete "
      "uneven points with symbolic parameters; scipy.optimize.minimize is its descent contract f(result) <= f(x0) within the "
      "bounds (replay: the real minimiser); spline-interpolated curves and lengths of general analytic curves are outside",
      "symbolic execution of the real Python code with z3 (symx), concrete replay",
      "DESIGN.md 4/C16")
check("C18",
      "Bounded symbolic execution of GeometricFinder.find_in_sphere/find_on_plane (FinderBase._find_by_position, "
      "functions.is_point_on_plane/point_to_plane_distance) with a symbolic query sphere/plane on box meshes, of "
      "RoundSolidFinder.find_core/find_shell on a Cylinder under a symbolic similarity, and of ViewpointReorienter.reorient "
      "(Triangle, Quadrangle, _get_normals, _get_aligned) on a convex hexahedron with symbolic placement and viewpoint "
      "distances in two initial numberings (and of one reorienter applied to three blocks in turn), qhull replaced by "
      "per-face diagonal choices. z3 shows exact vertex sets "
      "(squared-distance predicates) and the five re-orientation obligations incl. independence from the numbering.",
      "sphere centres / plane points on pinned lines, pinned plane-normal and viewpoint directions (thorough: small symbolic "
      "direction offsets); vertices within the stated margins of a query boundary excluded; convex hexahedron fixed",
      "symbolic execution of the real Python code with z3 (symx), ConvexHull contract stub, concrete replay with real qhull",
      "DESIGN.md 4/C18")
check("C11",
      "Bounded symbolic execution of the constructors of Loft/Extrude/Revolve, Cylinder, SemiCylinder, Frustum, ExtrudedRing, "
      "Elbow, RevolvedRing, Hemisphere, Wedge, Shell, Extruded/RevolvedStack over Grid, ExtrudedShape over OneCore/FourCore/"
      "Half/Wrapped disks, Oval and the spline-round sketches, L/T/N joints, and of chain/expand/contract/fill, with every argument of the form k*Q*x0 + t (symbolic "
      "scale and translation, pinned rational rotation), through the real Mesh.assemble: z3 shows positive corner "
      "Jacobians, no coinciding distinct vertices, expected vertex counts, face-connectedness, outer arcs on the intended "
      "circle, arcs of revolution on their circle about the axis, exact interface sharing, for all k and t (plus two "
      "ground placements per shape). Grading of each shape's own count-only chops runs with "
      "solver-chosen set-iteration schedules at a concrete placement.",
      "one canonical set of intrinsic parameters per shape class; rotation from {identity, pinned}; schedules of the grading "
      "run are explored up to a path bound (40 quick / 3000 thorough) and reported as truncated beyond",
      "symbolic execution of the real Python code with z3 (symx), similarity-lifted geometry, schedules as solver variables",
      "DESIGN.md 4/C11")
