#!/usr/bin/env python3
"""prints the sub-agent prompt for a property id (property text only; nothing from /verif's machinery)"""
import json, sys
pid = sys.argv[1]
n = sys.argv[2] if len(sys.argv) > 2 else "1"
for l in open("/verif/properties.jsonl"):
    p = json.loads(l)
    if p["id"] == pid:
        break
wt = f"/tmp/seed-{pid}" + ("" if n == "1" else f"-{n}")
print(f"""You are helping to evaluate a verification tool by mutation. Work ONLY inside the git worktree {wt}
(a scratch checkout of the Python library classy_blocks; source in {wt}/src/classy_blocks, tests in {wt}/tests).
Do not touch /repo or /verif and do not read anything under /verif.

Run python as:  cd {wt} && PYTHONPATH={wt}/src /venv/bin/python ...
Run the test suite as:  cd {wt} && PYTHONPATH={wt}/src /venv/bin/python -m pytest -q -p no:cacheprovider -x tests/ --deselect tests/test_construct/test_curves/test_interpolated.py::SplineInterpolatedCurveTests::test_length
(that one deselected test fails on the pristine tree already; the rest, ~1010 tests, pass in about 50 s).
Check first that `python -c "import classy_blocks; print(classy_blocks.__file__)"` with that PYTHONPATH points into {wt}/src.

Here is a semantic property the library is supposed to satisfy:

  Title: {p['title']}
  Statement: {p['statement']}
  Quantified over: {p['quantifier']['text']}
  Relevant source files: {', '.join(p['anchors']['files'])}

TASK: make ONE small, realistic source change under {wt}/src/classy_blocks (the kind of slip a maintainer could make in a
refactoring: a sign, an index, a swapped argument, an off-by-one, a dropped call, a wrong table entry, a condition that is
slightly too weak/strong, state that leaks between calls ...) such that
  1. the library still imports and the whole existing test suite still passes (run it; same command as above), and
  2. the property above is violated for SOME inputs where it held before your change.
Prefer a change that needs something specific to manifest - an unusual input (non-axis-aligned geometry, a non-zero origin,
a particular corner/side/index, an uneven spacing, a particular count), a multi-step sequence of API calls, a particular
order of insertion, or two cooperating sites that each look fine alone - NOT one that ordinary use would expose at once.
It must be a violation of THIS property (not merely some other behaviour change), and it must not be a violation that the
unchanged library already shows for the same input.

Deliverables, all written into the directory {wt}/SEED (create it):
  - patch.diff : `git -C {wt} diff -- src` output of your change (source only, no test edits)
  - demo.py    : a small standalone program using only the public API that exits 0 and prints PASS when the property holds
                 and exits 1 and prints FAIL (with the observed values) when it is violated. It must PASS on the pristine tree
                 (check with `git -C {wt} diff -- src > /tmp/p-{pid}.diff; git -C {wt} apply -R /tmp/p-{pid}.diff; ...; git -C {wt} apply /tmp/p-{pid}.diff` - do NOT use git stash: the stash is shared between worktrees) and FAIL with your change applied.
  - meta.json  : {{"property": "{pid}", "summary": "<one line: what was changed>", "needs": "<what is needed for it to manifest>",
                 "files": [...], "tests_pass": true, "demo_pass_without": true, "demo_fail_with": true}}
Leave the change applied in the worktree when you finish. In your final answer, report the summary, what it needs to manifest,
and the exact commands you ran to confirm the three facts (tests pass, demo passes without, demo fails with).
If your first idea makes an existing test fail, pick another one; do not edit tests.""")
