#!/bin/bash
# runs every registered check (quick or thorough) on the current tree, sequentially; summary at the end
TIER="${1:-quick}"
cd /verif
for c in $(python3 -c "import json; print(' '.join(x['property_id'] for x in json.load(open('MANIFEST.json'))['checks']))"); do
  s=$(date +%s)
  ./check $c $TIER > /tmp/runall-$c.log 2>&1; rc=$?
  e=$(date +%s)
  echo "$c exit=$rc $((e-s))s $(grep 'tier=' /tmp/runall-$c.log | cut -c1-170)"
  grep "VIOLATION\|HARNESS-ERROR" /tmp/runall-$c.log | cut -c1-200
done
