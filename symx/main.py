import argparse
import os
import sys


def main():
    ap = argparse.ArgumentParser()
    ap.add_argument("prop", nargs="?")
    ap.add_argument("tier", nargs="?", default=None)
    ap.add_argument("--replay")
    ap.add_argument("--jobs", type=int, default=None)
    a = ap.parse_args()
    sys.setrecursionlimit(20000)
    from . import runner

    if a.replay:
        sys.exit(runner.replay_file(a.replay))
    tier = a.tier or os.environ.get("VERIF_TIER") or "quick"
    seed = int(os.environ.get("VERIF_SEED", "0") or 0)
    sys.exit(runner.run_check(a.prop.upper(), tier, seed, a.jobs))


if __name__ == "__main__":
    main()
