"""Rebinding of module-level names in the imported classy_blocks modules so that the *unchanged function
bodies* of /repo/src run on proxy values (DESIGN.md section 2.2).  Every stub is listed in STUBS and is
validated against the real function on concrete inputs by validate_stubs()."""
import builtins
import importlib
import math
import pkgutil
import sys
import types

import numpy as np
import scipy
import scipy.linalg

from . import api, core
from .core import B, I, R, Ctx, Unmodelled

STUBS = []          # names of the stubs installed in this process
_INSTALLED = False
_ORIG = {}


def import_all():
    import classy_blocks

    for m in pkgutil.walk_packages(classy_blocks.__path__, "classy_blocks."):
        try:
            importlib.import_module(m.name)
        except Exception:  # optional modules
            pass
    return classy_blocks


# ---- scalar shims ------------------------------------------------------------------------------
def _float(x=0.0):
    if isinstance(x, R):
        return x
    if isinstance(x, np.ndarray) and x.dtype == object and x.shape == ():
        return x.item()
    return builtins.float(x)


def _int(x=0, *a):
    if isinstance(x, I):
        return x
    if isinstance(x, R):
        c = x.concrete()
        if c is not None:
            return builtins.int(c)
        return floor_int(x)
    return builtins.int(x, *a)


def floor_int(x):
    """int() of a symbolic real: truncation toward zero (forks on the sign of x)."""
    import z3

    ctx = Ctx.cur
    nonneg = bool(x >= 0)
    key = ("trunc", nonneg, core._key(x))
    g = ctx.memo.get(key)
    if g is None:
        g = ctx.new_gen(f"trunc!{len(ctx.names)}", integer=True)
        n = ctx.zv[g]
        if nonneg:
            ctx.add(z3.And(n <= x.z(), x.z() < n + 1))
        else:
            ctx.add(z3.And(n - 1 < x.z(), x.z() <= n))
        ctx.memo[key] = g
    r = I.__new__(I)
    r.p = {((g, 1),): core.Fraction(1)}
    r._z = None
    return r


class _MathFacade(types.ModuleType):
    def __init__(self):
        super().__init__("math_facade")

    def __getattr__(self, name):
        return getattr(math, name)

    @staticmethod
    def isclose(a, b, rel_tol=1e-09, abs_tol=0.0):
        if isinstance(a, R) or isinstance(b, R):
            a, b = R.lift(a), R.lift(b)
            d = abs(a - b)
            m = max(abs(a), abs(b))
            lim = rel_tol * m
            if abs_tol:
                lim = max(lim, R.lift(abs_tol))
            return d <= lim
        return math.isclose(a, b, rel_tol=rel_tol, abs_tol=abs_tol)


class _NpLinalg:
    @staticmethod
    def norm(x, ord=None, axis=None, keepdims=False):
        a = np.asarray(x)
        if a.dtype != object:
            return np.linalg.norm(x, ord=ord, axis=axis, keepdims=keepdims)
        if ord is not None or keepdims:
            raise Unmodelled("np.linalg.norm with ord/keepdims on symbolic data")
        if axis is None:
            return norm_model(a)
        if a.ndim == 2 and axis in (1, -1):
            out = np.empty(a.shape[0], dtype=object)
            for i in range(a.shape[0]):
                out[i] = norm_model(a[i])
            return out
        raise Unmodelled("np.linalg.norm: unsupported axis on symbolic data")

    def __getattr__(self, name):
        return getattr(np.linalg, name)


class _NpFacade(types.ModuleType):
    """forwards to numpy; isnan has no object loop; linalg.norm -> sqrt(sum of squares) model"""

    def __init__(self):
        super().__init__("np_facade")
        self.linalg = _NpLinalg()

    def __getattr__(self, name):
        return getattr(np, name)

    @staticmethod
    def linspace(start, stop, num=50, **kw):
        if isinstance(start, R) or isinstance(stop, R):
            if kw:
                raise Unmodelled("np.linspace options on symbolic scalars")
            a, b = R.lift(start), R.lift(stop)
            num = int(num)
            out = np.empty(num, dtype=object)
            for i in range(num):
                out[i] = a if num == 1 else a + (b - a) * R(core.Fraction(i, num - 1))
            return out
        return np.linspace(start, stop, num=num, **kw)

    @staticmethod
    def isnan(x):
        if isinstance(x, R):
            return False
        a = np.asarray(x)
        if a.dtype == object:
            return np.zeros(a.shape, dtype=bool)
        return np.isnan(a)


# ---- scipy facade -------------------------------------------------------------------------------
def norm_model(matrix, *args, **kwargs):
    if isinstance(matrix, R):
        return abs(matrix)
    a = np.asarray(matrix)
    if a.dtype != object:
        return scipy.linalg.norm(matrix, *args, **kwargs)
    if args or kwargs:
        raise Unmodelled("norm with ord/axis on symbolic data")
    flat = [R.lift(v) for v in a.ravel()]
    if all(v.is_concrete for v in flat):
        return R(scipy.linalg.norm(np.array([float(v) for v in flat])))
    if len(flat) == 1:
        return abs(flat[0])
    acc = R(0)
    for v in flat:
        acc = acc + v * v
    return acc.sqrt(nonneg=True)


def _is_zero(x):
    x = R.lift(x)
    return not x.p


def expm_model(M):
    """exp of a 3x3 skew matrix [w]x = rotation about w by |w| (Rodrigues)."""
    A = np.asarray(M)
    if A.dtype != object or all(R.lift(v).is_concrete for v in A.ravel()):
        out = scipy.linalg.expm(np.array([[float(v) for v in row] for row in A]))
        return core.lift_arr(out) if A.dtype == object else out
    if A.shape != (3, 3):
        raise Unmodelled("expm of a symbolic non-3x3 matrix")
    A = core.lift_arr(A)
    w = [A[2][1], A[0][2], A[1][0]]
    skew_ok = all(_is_zero(A[i][i]) for i in range(3)) and _is_zero(A[1][2] + w[0]) and _is_zero(A[2][0] + w[1]) \
        and _is_zero(A[0][1] + w[2])
    if not skew_ok:
        raise Unmodelled("expm of a symbolic matrix that is not syntactically skew")
    ctx = Ctx.cur
    # w = a * P with a concrete 3-vector and one common (Laurent) polynomial P: the angle is |a| * P about a/|a|
    nz = [v for v in w if v.p]
    if not nz:
        return core.lift_arr(np.eye(3))

    def lead(v):
        m = max(v.p, key=lambda mm: (sum(abs(e) for _, e in mm), mm))
        return v.p[m]
    ref = nz[0]
    lr = lead(ref)
    prop = all(not (v * R(lr) - ref * R(lead(v))).p for v in nz)
    if not prop:
        # symbolic axis: only a constant rotation angle is supported
        ww = w[0] * w[0] + w[1] * w[1] + w[2] * w[2]
        c = ww.concrete()
        if c is None:
            c = _prove_constant(ww)
        if c is None:
            raise Unmodelled("expm: rotation about a symbolic axis by a symbolic angle")
        phi = math.sqrt(float(c))
        if phi == 0:
            return core.lift_arr(np.eye(3))
        u = [v / R(phi) for v in w]
        cs, sn = R(math.cos(phi)), R(math.sin(phi))
    else:
        a = [lead(v) if v.p else core.Fraction(0) for v in w]
        P = ref * R(1 / lr)
        a2 = a[0] * a[0] + a[1] * a[1] + a[2] * a[2]
        na = R(a2).sqrt()                      # |a| (exact if rational, else within 1e-40)
        nac = na.concrete()
        u = [R(x) / na for x in a]
        ang = P * na
        pc_ = ang.concrete()
        if pc_ is not None:
            cs, sn = R(math.cos(float(pc_))), R(math.sin(float(pc_)))
        else:
            am = ang._angle_multiple()
            if am is None and len(P.p) == 1:
                # snap c*theta to an integer multiple of the pinned base angle (float axes are unit only to 1e-16)
                (m_, c_), = ang.p.items()
                info = ctx.angles.get(m_[0][0]) if len(m_) == 1 and m_[0][1] == 1 else None
                if info is not None:
                    k = c_ * info.m
                    kr = round(k)
                    if abs(float(k) - kr) < 1e-9 and kr != 0:
                        am = (info, kr)
            if am is not None:
                cs, sn = am[0].cos_sin_multiple(am[1])
                cs, sn = R.lift(cs), R.lift(sn)
            else:
                # |w| may still be a constant (e.g. axis/|axis| * 0.785 with a symbolic axis length): then rotate about
                # the (symbolic) unit vector w/|w| by that constant angle
                ww = w[0] * w[0] + w[1] * w[1] + w[2] * w[2]
                c2 = ww.concrete()
                if c2 is None:
                    c2 = _prove_constant(ww)
                if c2 is not None:
                    phi = math.sqrt(float(c2))
                    if phi == 0:
                        return core.lift_arr(np.eye(3))
                    u = [v / R(phi) for v in w]
                    cs, sn = R(math.cos(phi)), R(math.sin(phi))
                else:
                    cs, sn = ang.cos(), ang.sin()
    K = [[R(0), -u[2], u[1]], [u[2], R(0), -u[0]], [-u[1], u[0], R(0)]]
    out = np.empty((3, 3), dtype=object)
    for i in range(3):
        for j in range(3):
            k2 = K[i][0] * K[0][j] + K[i][1] * K[1][j] + K[i][2] * K[2][j]
            out[i, j] = (R(1) if i == j else R(0)) + sn * K[i][j] + (R(1) - cs) * k2
    return out


def _prove_constant(expr):
    """if pc entails expr == c for a rational c (found from a model), return c"""
    import z3

    ctx = Ctx.cur
    e = expr.z()
    if ctx.check(e == e, want_model=True) != "sat":
        return None
    v = core._val(ctx.last_solver.model().eval(e, model_completion=True))
    if not isinstance(v, (int, core.Fraction)):
        return None
    v = core.Fraction(v)
    # candidates from an algebraic approximation are rounded to a nearby simple rational
    cands = [v, v.limit_denominator(10 ** 6)]
    for c in cands:
        if ctx.check(e != z3.RealVal(str(c))) == "unsat":
            return c
    return None


class _LinalgFacade:
    norm = staticmethod(norm_model)
    expm = staticmethod(expm_model)

    def __getattr__(self, name):
        return getattr(scipy.linalg, name)


class _ScipyFacade(types.ModuleType):
    def __init__(self, **over):
        super().__init__("scipy_facade")
        self.linalg = _LinalgFacade()
        for k, v in over.items():
            setattr(self, k, v)

    def __getattr__(self, name):
        return getattr(scipy, name)


def validate_count(count, condition):
    """replacement of relations._validate_count (string eval of the count) with the same comparison"""
    allowed = ["==", "!=", ">=", "<=", ">", "<"]
    for op in allowed:
        if condition.startswith(op):
            num = builtins.float(condition[len(op):])
            break
    else:
        raise ValueError(f"Unknown condition (operator or format): {condition}")
    ok = {"==": lambda a, b: a == b, "!=": lambda a, b: a != b, ">=": lambda a, b: a >= b, "<=": lambda a, b: a <= b,
          ">": lambda a, b: a > b, "<": lambda a, b: a < b}[op](count, num)
    if not ok:
        raise ValueError(f"Count value ({count}) does not met the condition: {condition}")


def symset(iterable=()):
    """set() over possibly-symbolic numbers: distinct elements by == (forks on symbolic equalities)"""
    items = list(iterable)
    if not any(isinstance(x, R) for x in items):
        return set(items)
    out = []
    for x in items:
        if not any(bool(x == y) for y in out):
            out.append(x)
    return out


# ---- schedule: iteration order of address-hashed sets --------------------------------------------
class ChoiceSet:
    """A set whose iteration order is chosen by the solver: one fixed permutation per set until it is mutated
    (exactly the freedom CPython's address hashing has).  The permutation is kept as a partial order that is
    refined lazily.  `relevant(x)` (optional) tells for which elements the consumer's loop body can have an effect;
    elements for which it is False are yielded first without a fork (partial-order reduction, only enabled when the
    loop shape in the current source justifies it, see reduction_justified())."""

    _counter = 0

    def __init__(self, iterable=(), relevant=None):
        self._items = []
        self._before = set()     # (id(a), id(b)): a is iterated before b
        ChoiceSet._counter += 1
        self._id = ChoiceSet._counter
        self._epoch = 0
        self._npick = 0
        self._relevant = relevant
        for x in iterable:
            self.add(x)

    def _mutated(self):
        self._before = set()
        self._epoch += 1
        self._npick = 0

    def add(self, x):
        for y in self._items:
            if y is x or (hash(y) == hash(x) and y == x):
                return
        self._items.append(x)
        self._mutated()

    def discard(self, x):
        for i, y in enumerate(self._items):
            if y is x:
                del self._items[i]
                self._mutated()
                return

    def remove(self, x):
        n = len(self._items)
        self.discard(x)
        if len(self._items) == n:
            raise KeyError(x)

    def __contains__(self, x):
        return any(y is x for y in self._items)

    def __len__(self):
        return len(self._items)

    _insensitive = set()

    def __iter__(self):
        sx = api.CUR
        if sx is None or len(self._items) <= 1:
            return iter(list(self._items))
        if self._insensitive:
            co = sys._getframe(1).f_code
            if (co.co_filename, co.co_name) in self._insensitive:
                return iter(list(self._items))
        return self._lazy(sx)

    def _lazy(self, sx):
        items = list(self._items)
        if self._relevant is not None:
            rel = [x for x in items if self._relevant(x)]
            for x in items:
                if not any(x is y for y in rel):
                    yield x
        else:
            rel = items
        remaining = list(rel)
        while remaining:
            if len(remaining) == 1:
                yield remaining.pop()
                return
            # minimal elements of the known partial order among the remaining ones
            cands = [x for x in remaining
                     if not any((id(y), id(x)) in self._before for y in remaining if y is not x)]
            if len(cands) > 1:
                k = sx.choice(f"sched:{self._id}:{self._epoch}:{self._npick}", len(cands))
                self._npick += 1
                sx.schedule_picks = getattr(sx, "schedule_picks", 0) + 1
            else:
                k = 0
            pick = cands[k]
            for y in remaining:
                if y is not pick:
                    self._before.add((id(pick), id(y)))
            # transitive closure (sets are tiny)
            changed = True
            while changed:
                changed = False
                for (a, b) in list(self._before):
                    for (c, d) in list(self._before):
                        if b == c and (a, d) not in self._before:
                            self._before.add((a, d))
                            changed = True
            remaining = [y for y in remaining if y is not pick]
            yield pick

    def __repr__(self):
        return f"ChoiceSet({self._items})"


def reduction_justified():
    """The relevance reduction is sound only if the two loops that walk these sets do nothing for elements whose
    guard is false.  Checked on the *current* source on every run; otherwise full permutations are explored."""
    import ast
    import inspect

    import classy_blocks.items.wires.axis as AX
    import classy_blocks.items.wires.manager as MG

    def loop_ok(func, attr, guard):
        try:
            tree = ast.parse(inspect.getsource(func).lstrip() if False else __import__("textwrap").dedent(inspect.getsource(func)))
        except Exception:
            return False
        loops = [n for n in ast.walk(tree) if isinstance(n, (ast.For, ast.comprehension))
                 and isinstance(n.iter, ast.Attribute) and n.iter.attr == attr]
        if len(loops) != 1 or not isinstance(loops[0], ast.For):
            return False
        body = loops[0].body
        return (len(body) == 1 and isinstance(body[0], ast.If) and not body[0].orelse and not loops[0].orelse
                and ast.unparse(body[0].test) == guard)

    ok_axis = loop_ok(AX.Axis.copy_grading, "neighbours", "neighbour.is_defined")
    ok_wire = loop_ok(MG.WirePropagateManager.copy_neighbours, "coincidents", "coincident.grading.is_defined")
    # no other iteration over these sets anywhere in items/, lists/ and mesh.py - except loops whose body is a single
    # `if <test>: raise ...` (their outcome class does not depend on the order; they are iterated without forks)
    import glob
    others = 0
    insensitive = set()
    for fn in glob.glob("/repo/src/classy_blocks/items/**/*.py", recursive=True) + \
            glob.glob("/repo/src/classy_blocks/lists/*.py") + ["/repo/src/classy_blocks/mesh.py"]:
        try:
            tree = ast.parse(open(fn).read())
        except Exception:
            return False, False, set()
        for fdef in ast.walk(tree):
            if not isinstance(fdef, (ast.FunctionDef, ast.AsyncFunctionDef)):
                continue
            for n in ast.walk(fdef):
                if isinstance(n, (ast.For, ast.comprehension)) and isinstance(n.iter, ast.Attribute) \
                        and n.iter.attr in ("neighbours", "coincidents"):
                    if isinstance(n, ast.For) and len(n.body) == 1 and isinstance(n.body[0], ast.If) \
                            and not n.body[0].orelse and not n.orelse and len(n.body[0].body) == 1 \
                            and isinstance(n.body[0].body[0], ast.Raise):
                        insensitive.add((fn, fdef.name))
                    else:
                        others += 1
    if others != 2:
        return False, False, set()
    return ok_axis, ok_wire, insensitive


# ---- install ---------------------------------------------------------------------------------------
def install(choice_sets=False):
    """Rebind module globals for symbolic execution.  Idempotent."""
    global _INSTALLED
    cb = import_all()
    if _INSTALLED:
        if choice_sets:
            install_choice_sets()
        return cb
    _INSTALLED = True
    for name, mod in list(sys.modules.items()):
        if name.startswith("classy_blocks") and mod is not None and hasattr(mod, "DTYPE"):
            mod.DTYPE = object
    STUBS.append("DTYPE=object in every classy_blocks module that imports it")

    import classy_blocks.util.functions as F
    F.float = _float
    F.scipy = _ScipyFacade()
    STUBS.append("util.functions: float()->identity on proxies; scipy.linalg.norm->sqrt(sum sq); "
                 "scipy.linalg.expm->Rodrigues model")

    import classy_blocks.grading.chop as CH
    import classy_blocks.grading.grading as GR
    import classy_blocks.grading.relations as RL
    CH.int = _int
    RL.int = _int
    RL._validate_count = validate_count
    RL.np = _NpFacade()
    GR.math = _MathFacade()
    STUBS.append("grading.chop/relations: int()->identity/floor on proxies; relations._validate_count->same "
                 "comparison without eval(); relations.np.isnan->False on proxies; grading.math.isclose->same formula")

    import classy_blocks.optimize.cell as CE
    CE.np = _NpFacade()
    STUBS.append("optimize.cell: np.linalg.norm -> sqrt(sum of squares) model (same as scipy.linalg.norm)")

    import classy_blocks.construct.flat.sketches.grid as GD
    import classy_blocks.construct.curves.curve as CV
    GD.np = _NpFacade()
    CV.np = _NpFacade()
    STUBS.append("sketches.grid / curves.curve: np.linspace on symbolic scalars -> a + (b-a)*i/(n-1)")

    import classy_blocks.items.wires.manager as MG
    MG.set = symset
    STUBS.append("items.wires.manager: set(counts) -> distinct-by-== list (forks on symbolic equalities)")

    import classy_blocks.items.edges.arcs.origin as OR
    OR.np = _NpFacade()
    STUBS.append("items.edges.arcs.origin: np.isnan->False on proxies (NaN-producing operations end the path)")

    for modname in ("classy_blocks.construct.curves.discrete", "classy_blocks.construct.curves.curve",
                    "classy_blocks.construct.curves.interpolated", "classy_blocks.construct.curves.analytic",
                    "classy_blocks.construct.curves.interpolators", "classy_blocks.construct.flat.sketches.disk",
                    "classy_blocks.construct.flat.sketches.annulus", "classy_blocks.construct.flat.sketches.spline_round"):
        mod = sys.modules.get(modname)
        if mod is not None:
            mod.float = _float
            mod.int = _int
    if choice_sets:
        install_choice_sets()
    return cb


def install_choice_sets():
    import classy_blocks.items.wires.axis as AX
    import classy_blocks.items.wires.wire as WI

    ok_axis, ok_wire, insensitive = reduction_justified()
    ChoiceSet._insensitive = insensitive
    axis_rel = (lambda a: a.is_defined) if ok_axis else None
    wire_rel = (lambda w: w.grading.is_defined) if ok_wire else None
    AX.set = lambda it=(): ChoiceSet(it, relevant=axis_rel)
    WI.set = lambda it=(): ChoiceSet(it, relevant=wire_rel)
    if "ChoiceSet" not in " ".join(STUBS):
        STUBS.append("items.wires.axis/wire: set -> ChoiceSet (iteration order chosen by the solver; partial-order "
                     f"reduction on no-op elements: neighbours={ok_axis}, coincidents={ok_wire}; order-insensitive "
                     f"raise-only loops: {sorted(n for _, n in insensitive)})")


# ---- stub validation (translator validation, run on every check) -----------------------------------
def validate_stubs(seed=0, n=60):
    """Compare the models with the real functions on concrete inputs; returns a report dict or raises."""
    import random

    rnd = random.Random(seed)
    rep = {"norm": 0, "expm": 0, "validate_count": 0, "isclose": 0}
    Ctx.cur = Ctx()
    try:
        for _ in range(n):
            v = [rnd.uniform(-5, 5) for _ in range(3)]
            got = float(norm_model(core.lift_arr(v)))
            want = float(scipy.linalg.norm(np.array(v)))
            assert abs(got - want) < 1e-9 * max(1, want), ("norm", v, got, want)
            rep["norm"] += 1
        # expm with a pinned angle against real scipy
        import z3  # noqa

        pins = [(1, core.Fraction(3, 5), core.Fraction(4, 5)), (2, core.Fraction(4, 5), core.Fraction(3, 5)),
                (1, core.Fraction(-7, 25), core.Fraction(24, 25)), (1, core.Fraction(5, 13), core.Fraction(-12, 13))]
        axes = [(0, 0, 1), (1, 2, 2), (2, 3, 6), (2, -1, 2), (6, 9, 18)]
        for (m, c, s) in pins:
            for ax in axes:
                Ctx.cur = Ctx()
                sx = api.Sx("sym", Ctx.cur)
                th = sx.angle("th", m, c, s)
                a = np.array(ax, dtype=float)
                a = a / np.linalg.norm(a)
                for mult in (1, -1, core.Fraction(1, m)):
                    la = core.lift_arr(list(ax))
                    M = np.cross(np.eye(3), la / norm_model(la) * (th * R(mult)))
                    got = expm_model(M)
                    val = math.atan2(float(s), float(c)) * m * float(mult)
                    want = scipy.linalg.expm(np.cross(np.eye(3), a * val))
                    for i in range(3):
                        for j in range(3):
                            assert abs(float(got[i][j]) - want[i][j]) < 1e-9, ("expm", ax, m, c, s, mult)
                    rep["expm"] += 1
        import classy_blocks.grading.relations as RL
        real_vc = _ORIG.get("validate_count")
        if real_vc is not None:
            for cnt in (0, 1, 2, 5, 1.5):
                for cond in (">=1", ">1", "==2", "<5", "<=1", "!=2"):
                    def out(fn):
                        try:
                            fn(cnt, cond)
                            return "ok"
                        except ValueError:
                            return "ValueError"
                    RL.int = builtins.int
                    try:
                        real_out = out(real_vc)
                    finally:
                        RL.int = _int
                    assert real_out == out(validate_count), ("validate_count", cnt, cond)
                    rep["validate_count"] += 1
        for _ in range(n):
            a, b = rnd.uniform(-3, 3), rnd.uniform(-3, 3)
            if rnd.random() < 0.5:
                b = a * (1 + rnd.uniform(-2e-7, 2e-7))
            Ctx.cur = Ctx()
            got = _MathFacade.isclose(R(a), R(b), rel_tol=1e-7)
            assert bool(got) == math.isclose(a, b, rel_tol=1e-7), ("isclose", a, b)
            rep["isclose"] += 1
    finally:
        Ctx.cur = None
    return rep


def remember_originals():
    import classy_blocks.grading.relations as RL

    if "validate_count" not in _ORIG:
        _ORIG["validate_count"] = RL._validate_count
