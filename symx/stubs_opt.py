"""Contract-level models of scipy.optimize used by the clamps/optimizer (DESIGN.md 2.2, C13/C17)."""
import types

import numpy as np
import scipy
import z3

from . import api, core
from .core import Ctx, R


class Result:
    def __init__(self, x, fun=None):
        self.x = x
        self.fun = fun
        self.success = True
        self.message = "model"


_counter = {"n": 0}


def reset():
    _counter["n"] = 0


def fresh_vector(n, bounds=None, prefix="opt"):
    sx = api.CUR
    _counter["n"] += 1
    xs = []
    for i in range(n):
        lo = hi = None
        if bounds is not None and bounds[i] is not None:
            lo, hi = bounds[i]
        v = sx.real(f"{prefix}{_counter['n']}_{i}")
        if lo is not None:
            sx.ctx.add((v >= lo).e if isinstance(v >= lo, core.B) else z3.BoolVal(bool(v >= lo)))
        if hi is not None:
            sx.ctx.add((v <= hi).e if isinstance(v <= hi, core.B) else z3.BoolVal(bool(v <= hi)))
        xs.append(v)
    return core.lift_arr(xs)


CLAMP_INIT_MODE = {"mode": "root"}     # "any": the creation position need not be on the manifold; the result is then arbitrary


def minimize_exact_root(fun, x0, bounds=None, tol=None, **kw):
    """ClampBase.get_params: the minimiser of a distance whose minimum 0 is attainable returns parameters x with
    fun(x) == 0 (contract of an exact minimiser for a position on the manifold); x is otherwise arbitrary in bounds."""
    sx = api.CUR
    if sx is None or not sx.sym:
        return scipy.optimize.minimize(fun, x0, bounds=bounds, tol=tol, **kw)
    x0 = np.atleast_1d(np.asarray(x0, dtype=object))
    x = fresh_vector(len(x0), bounds, "clampinit")
    val = R.lift(fun(x))
    if CLAMP_INIT_MODE["mode"] == "any":
        return Result(x, val)
    c = val.concrete()
    if c is not None:
        if c != 0:
            raise core.Infeasible()
    else:
        cond = z3.simplify(val.z() == 0)
        if Ctx.cur.check(cond) == "unsat":
            raise core.Infeasible()
        Ctx.cur.add(cond)
    return Result(x, R(0))


class _OptFacade:
    def __init__(self, minimize):
        self.minimize = minimize

    def __getattr__(self, name):
        return getattr(scipy.optimize, name)


class ScipyFacade(types.ModuleType):
    def __init__(self, minimize):
        super().__init__("scipy_opt_facade")
        self.optimize = _OptFacade(minimize)

    def __getattr__(self, name):
        return getattr(scipy, name)


def install_clamp_init_model():
    import classy_blocks.optimize.clamps.clamp as CL

    CL.scipy = ScipyFacade(minimize_exact_root)
    return "optimize.clamps.clamp: scipy.optimize.minimize (initial parameters) -> fresh in-bounds parameters x with " \
           "distance(x) == 0 (exact minimiser of an attainable zero distance)"


def brentq_model(f, a, b, *args, **kw):
    """scipy.optimize.brentq contract: raises ValueError unless f(a) and f(b) have opposite signs; otherwise returns
    some x in [a, b] with f(x) == 0 (a root exists for continuous f)."""
    sx = api.CUR
    if sx is None or not sx.sym or not any(isinstance(v, R) for v in (a, b, f(a))):
        return scipy.optimize.brentq(f, a, b, *args, **kw)
    fa, fb = R.lift(f(a)), R.lift(f(b))
    if not (fa * fb < 0):
        if bool(fa == 0):
            return a
        if bool(fb == 0):
            return b
        raise ValueError("f(a) and f(b) must have different signs")
    _counter["n"] += 1
    x = sx.real(f"brentq{_counter['n']}")
    ctx = Ctx.cur
    lo, hi = R.lift(a), R.lift(b)
    ctx.add(z3.And(x.z() >= lo.z(), x.z() <= hi.z()))
    val = R.lift(f(x))
    cond = z3.simplify(val.z() == 0)
    if ctx.check(cond) == "unsat":
        raise core.Infeasible()
    ctx.add(cond)
    return x


def install_brentq_model():
    import classy_blocks.grading.relations as RL

    class _Opt:
        brentq = staticmethod(brentq_model)

        def __getattr__(self, name):
            return getattr(scipy.optimize, name)

    class _Sc(types.ModuleType):
        def __init__(self):
            super().__init__("scipy_rel_facade")
            self.optimize = _Opt()

        def __getattr__(self, name):
            return getattr(scipy, name)

    RL.scipy = _Sc()
    return "grading.relations: scipy.optimize.brentq -> ValueError unless f(a)*f(b) < 0, else a fresh x in [a,b] with f(x) == 0"
