"""Dual-mode harness API.

A harness is a function `run(sx, **family)` written once and executed
  * symbolically (mode "sym"): inputs are R/I/B proxies, every branch is decided by z3, obligations are queries;
  * concretely (mode "conc"): inputs are floats/ints from a solver model, the *unshimmed* library runs in IEEE
    doubles, obligations are evaluated with float tolerances.  This is the replay of a counterexample.
"""
import math
from fractions import Fraction

import numpy as np
import z3

from . import core
from .core import B, I, R, Ctx

CUR = None  # the Sx of the path being executed (used by shims such as ChoiceSet)

REPLAY_FACTOR = 0.5  # a symbolic deviation > tol must show up as > tol*REPLAY_FACTOR in doubles


class ReplayMismatch(Exception):
    """the model violates an assumption when evaluated concretely"""


class Sx:
    def __init__(self, mode, ctx=None, model=None):
        self.mode = mode
        self.sym = mode == "sym"
        self.ctx = ctx
        self.model = model or {}
        self.rng = None        # conc mode, ground twin: inputs the model does not fix are drawn from their declared ranges
        self.failed = []       # conc mode: failed obligations
        self.checked = 0
        self.reached = {}
        self.notes = {}
        self.assumptions = []
        self._cs_counter = 0

    # ---- inputs ------------------------------------------------------------------------------
    def _mv(self, name, default):
        v = self.model.get(name, default)
        if isinstance(v, str):
            try:
                v = Fraction(v)
            except Exception:
                v = default
        return v

    def real(self, name, lo=None, hi=None, positive=False, nonzero=False):
        if not self.sym:
            default = lo if lo is not None else (hi if hi is not None else (1 if positive else 0))
            if lo is not None and hi is not None:
                default = (Fraction(lo) + Fraction(hi)) / 2
                if self.rng is not None and name not in self.model:
                    default = self.model[name] = self.rng.uniform(float(lo), float(hi))
            return float(self._mv(name, default))
        ctx = self.ctx
        strictly_pos = positive or (lo is not None and lo > 0)
        g = ctx.new_gen(name, positive=strictly_pos, nonzero=nonzero)
        x = ctx.zv[g]
        ctx.inputs[name] = "real"
        if positive:
            ctx.add(x > 0)
        if lo is not None:
            ctx.add(x >= z3.RealVal(str(Fraction(lo))))
        if hi is not None:
            ctx.add(x <= z3.RealVal(str(Fraction(hi))))
        if nonzero:
            ctx.add(x != 0)
        return R.gen(g)

    def integer(self, name, lo, hi):
        if not self.sym:
            if self.rng is not None and name not in self.model:
                self.model[name] = self.rng.randint(lo, hi)
            return int(self._mv(name, lo))
        ctx = self.ctx
        g = ctx.new_gen(name, positive=lo > 0, integer=True)
        x = ctx.zv[g]
        ctx.inputs[name] = "int"
        ctx.add(z3.And(x >= lo, x <= hi))
        r = I.__new__(I)
        r.p = {((g, 1),): Fraction(1)}
        r._z = None
        return r

    def boolean(self, name):
        if not self.sym:
            if self.rng is not None and name not in self.model:
                self.model[name] = self.rng.random() < 0.5
            return bool(self._mv(name, False))
        self.ctx.inputs[name] = "bool"
        return B(z3.Bool(name))

    def choice(self, name, n):
        """an int in range(n); forks in symbolic mode"""
        if n <= 1:
            return 0
        v = self.integer(name, 0, n - 1)
        return int(v)

    def flag(self, name):
        """a python bool; forks in symbolic mode"""
        return bool(self.boolean(name))

    def angle(self, name, m, c, s):
        """pinned angle theta with cos(theta/m) = c, sin(theta/m) = s (exact rationals, c*c+s*s == 1)"""
        c, s = Fraction(c), Fraction(s)
        assert c * c + s * s == 1
        val = math.atan2(float(s), float(c)) * m
        if not self.sym:
            return val
        ctx = self.ctx
        g = ctx.new_gen(name, positive=val > 0, nonzero=val != 0)
        ctx.angles[g] = core.AngleInfo(m, R(c), R(s), val)
        x = ctx.zv[g]
        lo, hi = Fraction(val) - Fraction(1, 10 ** 12), Fraction(val) + Fraction(1, 10 ** 12)
        ctx.add(z3.And(x >= z3.RealVal(str(lo)), x <= z3.RealVal(str(hi))))
        return R.gen(g)

    def const(self, x):
        """lift a concrete number"""
        if self.sym:
            return R(x)
        return float(x)

    def vec(self, *xs):
        if self.sym:
            return core.lift_arr(list(xs))
        return np.array([float(x) for x in xs])

    def arr(self, a):
        if self.sym:
            return core.lift_arr(a)
        return np.array(a, dtype=float)

    # ---- assumptions / obligations ---------------------------------------------------------
    def assume(self, cond, text=None):
        if text:
            self.assumptions.append(text)
        if not self.sym:
            if not bool(cond):
                raise ReplayMismatch(f"assumption violated in replay: {text}")
            return
        if isinstance(cond, B):
            # keep the invariant "pc is satisfiable"
            if self.ctx.check(z3.simplify(cond.e)) == "unsat":
                raise core.Infeasible()
            self.ctx.add(cond.e)
        elif not cond:
            raise core.Infeasible()

    def prove(self, cond, label, key=None, info=None):
        self.checked += 1
        if not self.sym:
            ok = bool(cond)
            if not ok:
                self.failed.append({"label": label, "key": key or label, "info": info})
            return "discharged" if ok else "violated"
        return self.ctx.prove(cond, label, key, info)

    def close(self, a, b, tol):
        """|a-b| <= tol as a condition (B or bool)"""
        if not self.sym:
            return abs(float(a) - float(b)) <= tol * REPLAY_FACTOR
        d = R.lift(a) - R.lift(b)
        c = d.concrete()
        if c is not None:
            return abs(c) <= Fraction(tol)
        t = z3.RealVal(str(Fraction(tol)))
        return B(z3.And(d.z() <= t, d.z() >= -t))

    def prove_close(self, a, b, label, tol=1e-9, key=None, info=None):
        return self.prove(self.close(a, b, tol), label, key, info)

    def prove_vec_close(self, a, b, label, tol=1e-9, key=None, info=None):
        a, b = np.asarray(a), np.asarray(b)
        assert a.shape == b.shape, (a.shape, b.shape)
        conds = [self.close(x, y, tol) for x, y in zip(a.ravel(), b.ravel())]
        return self.prove(self.all(conds), label, key, info)

    def all(self, conds):
        if not self.sym:
            return all(bool(c) for c in conds)
        zs = []
        for c in conds:
            if isinstance(c, B):
                zs.append(c.e)
            elif not c:
                return False
        if not zs:
            return True
        return B(z3.And(*zs))

    def any(self, conds):
        if not self.sym:
            return any(bool(c) for c in conds)
        zs = []
        for c in conds:
            if isinstance(c, B):
                zs.append(c.e)
            elif c:
                return True
        if not zs:
            return False
        return B(z3.Or(*zs))

    def neg(self, c):
        if isinstance(c, B):
            return B(z3.Not(c.e))
        return not c

    def implies(self, a, b):
        return self.any([self.neg(a), b])

    def reach(self, label):
        """reachability witness: this program point was reached on a feasible path"""
        self.reached[label] = self.reached.get(label, 0) + 1

    def note(self, k, v):
        self.notes[k] = v

    def value(self, x):
        """concrete value of a symbolic expression on a single-valued path, else None (for notes only)"""
        if isinstance(x, R):
            c = x.concrete()
            return None if c is None else float(c)
        return x

    def is_sym(self, x):
        return isinstance(x, (R, B)) and not (isinstance(x, R) and x.is_concrete)
