"""Job pool, replay, findings classification, evidence writer."""
import hashlib
import importlib
import json
import multiprocessing as mp
import os
import re
import subprocess
import sys
import time
import traceback
from fractions import Fraction

VERIF = os.path.dirname(os.path.dirname(os.path.abspath(__file__)))
# tools/seed_run_par.sh only: outputs elsewhere, library from a scratch worktree (registered commands never set these)
OUT = os.environ.get("SYMX_OUT") or VERIF
REPO_SRC = os.environ.get("SYMX_REPO_SRC")
EXIT_OK, EXIT_VIOLATION, EXIT_HARNESS = 0, 1, 2


def _jsonable(x):
    if isinstance(x, Fraction):
        if x.denominator == 1:
            return int(x)
        return str(x)
    if isinstance(x, dict):
        return {str(k): _jsonable(v) for k, v in x.items()}
    if isinstance(x, (list, tuple)):
        return [_jsonable(v) for v in x]
    if isinstance(x, (int, float, str, bool)) or x is None:
        return x
    try:
        import numpy as np

        if isinstance(x, np.generic):
            return x.item()
        if isinstance(x, np.ndarray):
            return _jsonable(x.tolist())
    except Exception:
        pass
    return str(x)


# ---------------------------------------------------------------------------------------------
class HardTimeout(BaseException):
    pass


def _worker(args):
    """Runs one job (one member of the enumerated family) symbolically in a worker process."""
    modname, job, tier, seed = args
    t0 = time.time()
    out = {"job": job["name"], "paths": 0, "by_status": {}, "by_outcome": {}, "obligations": 0, "discharged": 0,
           "syntactic": 0, "inconclusive": 0, "violated": [], "samples": [], "nontrivial": 0, "decided_branches": 0,
           "functions": [], "reached": {}, "truncated": False, "error": None, "stats": {}, "sched_picks": 0,
           "unmodelled": [], "fn": job["fn"], "params": job.get("params", {})}
    if job.get("symbolic") is False:
        # a ground-twin-only member of the family (its symbolic run is known to be undecidable for the solver or outside
        # what the function abstractions can decide); listed in the evidence as such
        out["twin_only"] = True
        out["wall_s"] = 0.0
        return out
    try:
        from . import api, core, shims

        mod = importlib.import_module(modname)
        meta = getattr(mod, "META", {})
        shims.remember_originals() if False else None
        shims.install(choice_sets=meta.get("choice_sets", False))
        if hasattr(mod, "install"):
            mod.install()
        fn = getattr(mod, job["fn"])
        params = job.get("params", {})
        for k in core.STATS:
            core.STATS[k] = 0
        funcs = set()
        state = {"first": True}
        kept = []

        def prof(frame, event, arg):
            if event == "call":
                co = frame.f_code
                fnm = co.co_filename
                if fnm.startswith("/repo/src/"):
                    funcs.add(fnm[len("/repo/src/"):-3].replace("/", ".") + "." + co.co_qualname)

        def run(ctx):
            sx = api.Sx("sym", ctx)
            api.CUR = sx
            shims.ChoiceSet._counter = 0
            ctx.sx = sx
            if state["first"]:
                sys.setprofile(prof)
            try:
                return fn(sx, **params)
            finally:
                if state["first"]:
                    sys.setprofile(None)
                    state["first"] = False
                api.CUR = None

        def on_path(ctx, res, exc):
            out["paths"] += 1
            st = ctx.status
            out["by_status"][st] = out["by_status"].get(st, 0) + 1
            if st == "infeasible":
                return
            sx = getattr(ctx, "sx", None)
            outcome = res if isinstance(res, str) else (type(exc).__name__ if exc is not None else "done")
            if st == "exception":
                outcome = "EXC:" + type(exc).__name__
                if len(out["unmodelled"]) < 5:
                    out["unmodelled"].append("".join(traceback.format_exception(exc))[-1500:])
            elif st in ("unmodelled", "bound", "unknown"):
                outcome = st + ":" + str(exc)[:80]
                if len(out["unmodelled"]) < 5 and exc is not None:
                    tb = traceback.extract_tb(exc.__traceback__)
                    where = [f"{f.filename.replace('/repo/src/', '')}:{f.lineno}" for f in tb if "/repo/src/" in f.filename][-2:]
                    out["unmodelled"].append(f"{st}: {exc} at {where}")
            out["by_outcome"][outcome] = out["by_outcome"].get(outcome, 0) + 1
            nsolver = 0
            for ob in ctx.obligations:
                out["obligations"] += 1
                v = ob["verdict"]
                if v == "discharged":
                    out["discharged"] += 1
                    nsolver += 1
                elif v == "syntactic":
                    out["syntactic"] += 1
                elif v == "inconclusive":
                    out["inconclusive"] += 1
                    nsolver += 1
                elif v == "violated":
                    nsolver += 1
                    out["violated"].append({
                        "label": ob["label"], "key": ob["key"], "info": _jsonable(ob.get("info")),
                        "model": _jsonable(ob.get("model") or {}), "smt": ob.get("smt"),
                        "decisions": [int(t[0]) for t in ctx.trail if t[2]],
                    })
            if st in ("unmodelled", "bound", "unknown", "exception"):
                out["inconclusive"] += 1
                out["obligations"] += 1
            forks = sum(1 for t in ctx.trail if t[2])
            out["decided_branches"] += len(ctx.trail)
            if nsolver > 0 or forks > 0:
                out["nontrivial"] += 1
            if sx is not None:
                for k, v in sx.reached.items():
                    out["reached"][k] = out["reached"].get(k, 0) + v
                out["sched_picks"] += getattr(sx, "schedule_picks", 0)
            if sx is not None and getattr(sx, "keep", None) is not None and st == "ok":
                kept.append({"keep": sx.keep, "cons": list(ctx.cons), "forks": [int(t[0]) for t in ctx.trail if t[2]],
                             "ctx": ctx})
            if len(out["samples"]) < 3:
                obs = [{k: ob[k] for k in ("label", "verdict", "smt") if k in ob} for ob in ctx.obligations]
                out["samples"].append({
                    "job": job["name"], "forked_decisions": [int(t[0]) for t in ctx.trail if t[2]],
                    "decided_branches": len(ctx.trail), "status": st, "outcome": outcome,
                    "solver_queries": ctx.nqueries, "generators": len(ctx.names),
                    "obligations": obs[:4] + ([{"more": len(obs) - 4}] if len(obs) > 4 else []),
                    "notes": _jsonable(getattr(sx, "notes", {})) if sx else {},
                })

        deadline = t0 + job.get("budget_s", 600)
        # hard stop for work that is neither a solver call (those are watched) nor between two paths (explore() looks at the
        # deadline there): polynomial canonicalisation in pure Python can take arbitrarily long on an unlucky path
        import signal

        def _hard(signum, frame):
            raise HardTimeout()

        signal.signal(signal.SIGALRM, _hard)
        signal.setitimer(signal.ITIMER_REAL, job.get("budget_s", 600) * 1.5 + 20)
        try:
            summ = core.explore(run, on_path, max_paths=job.get("max_paths", 20000),
                                timeout_ms=job.get("timeout_ms"), deadline=deadline)
        except HardTimeout:
            summ = {"truncated": True}
            out["hard_timeout"] = True
        finally:
            signal.setitimer(signal.ITIMER_REAL, 0)
        out["truncated"] = summ["truncated"]
        if hasattr(mod, "post_job"):
            mod.post_job(job, kept, out)
        out["functions"] = sorted(funcs)
        out["stats"] = dict(core.STATS)
        out["stubs"] = list(shims.STUBS) + list(meta.get("stubs", []))
    except BaseException as ex:  # noqa
        out["error"] = "".join(traceback.format_exception(ex))[-3000:]
    out["wall_s"] = time.time() - t0
    return out


# ---------------------------------------------------------------------------------------------
def replay_file(path):
    """Concrete replay of a counterexample in *this* process (fresh interpreter expected)."""
    from . import api, shims

    with open(path) as fh:
        rp = json.load(fh)
    mod = importlib.import_module(rp["harness"])
    meta = getattr(mod, "META", {})
    shims.import_all()
    if meta.get("choice_sets", False):
        shims.install_choice_sets()
    if hasattr(mod, "install_conc"):
        mod.install_conc()
    sx = api.Sx("conc", model=rp["model"])
    if rp.get("sample_seed") is not None:
        import random
        sx.rng = random.Random(rp["sample_seed"]) if rp["sample_seed"] else None     # seed 0: the mid-points of all ranges
    api.CUR = sx
    shims.ChoiceSet._counter = 0
    res = None
    try:
        res = getattr(mod, rp["fn"])(sx, **rp.get("params", {}))
    except api.ReplayMismatch as ex:
        print(f"REPLAY-MISMATCH {ex}")
        return 3
    finally:
        api.CUR = None
    print(f"replay: property={rp['property']} job={rp['job']} outcome={res!r} obligations_checked={sx.checked}")
    for k, v in sx.notes.items():
        print(f"  note {k} = {v}")
    if rp.get("sample_seed") is not None:
        print("  sampled inputs: " + json.dumps({k: (v if isinstance(v, (int, float, bool)) else str(v)) for k, v in sx.model.items()}))
    hit = [f for f in sx.failed if f["key"] == rp["key"] or rp["key"] == "*"]
    other = [f for f in sx.failed if f["key"] != rp["key"] and rp["key"] != "*"]
    for f in sx.failed:
        print(f"  FAILED obligation: {f['label']}  [key {f['key']}] {f.get('info') or ''}")
    if hit:
        print("REPRODUCED")
        return 0
    if other:
        print("REPRODUCED-OTHER")
        return 4
    print("NOT-REPRODUCED")
    return 3


def _ground_twins(prop, modname, meta, jobs, seed, nproc, seen_keys):
    """Ground twin of every job: the same harness function on the real, unshimmed library in IEEE doubles, inputs at the
    mid-points of their ranges and at seeded random points. Its purpose is validation - the harness and its oracle must agree
    with the real arithmetic wherever the solver said 'holds' - and it keeps a defect that makes the symbolic run intractable
    (truncated, inconclusive) from going unnoticed. A failed obligation is a concrete counterexample on the real code."""
    from concurrent.futures import ThreadPoolExecutor
    nsamp = int(meta.get("twin_samples", 2))
    report = {"runs": 0, "outside_precondition": 0, "errors": [], "failed_keys": {}}
    if nsamp <= 0 or os.environ.get("SYMX_NO_TWIN"):
        return report
    d = os.path.join(OUT, "replays", prop)
    tasks = []
    for j in jobs:
        if j.get("twin") is False:
            continue
        for k in range(nsamp):
            rp = {"property": prop, "harness": modname, "job": j["name"], "fn": j["fn"], "params": j.get("params", {}),
                  "model": {}, "label": "ground twin", "key": "*", "sample_seed": 0 if k == 0 else 1000 * seed + k}
            h = hashlib.sha1(json.dumps(rp, sort_keys=True).encode()).hexdigest()[:12]
            path = os.path.join(d, f"twin-{h}.json")
            with open(path, "w") as fh:
                json.dump(rp, fh, indent=1, sort_keys=True)
            tasks.append((path, rp))

    def one(t):
        try:
            return t, _run_replay(t[0])
        except subprocess.TimeoutExpired:
            return t, (124, "timeout")
    with ThreadPoolExecutor(max_workers=nproc) as ex:
        for (path, rp), (code, outp) in ex.map(one, tasks):
            report["runs"] += 1
            keep = False
            if code == 0:
                for label, key in re.findall(r"FAILED obligation: (.*?)  \[key ([^\]]+)\]", outp):
                    report["failed_keys"][key] = report["failed_keys"].get(key, 0) + 1
                    if key not in seen_keys:
                        # a concrete violation the symbolic run did not report: a replay file of its own
                        rp2 = dict(rp, key=key, label=label)
                        m = re.search(r"sampled inputs: (\{.*\})", outp)
                        if m:
                            rp2["model"] = json.loads(m.group(1))
                            rp2.pop("sample_seed", None)
                        p2 = os.path.join(d, "twin-" + hashlib.sha1((key + path).encode()).hexdigest()[:12] + ".json")
                        with open(p2, "w") as fh:
                            json.dump(rp2, fh, indent=1, sort_keys=True)
                        seen_keys.setdefault(key, []).append(({"job": rp["job"], "fn": rp["fn"], "params": rp["params"]},
                                                               {"key": key, "label": label, "model": rp2["model"], "info": None,
                                                                "decisions": [], "params": rp["params"], "smt": None}))
                        keep = True
            elif code == 3 and "REPLAY-MISMATCH" in outp:
                report["outside_precondition"] += 1
            elif code != 3:
                report["errors"].append({"job": rp["job"], "sample_seed": rp["sample_seed"], "exit": code, "tail": outp[-400:]})
            if not keep and os.path.exists(path):
                os.unlink(path)
    return report


def _run_replay(path):
    py = os.path.join(VERIF, ".venv", "bin", "python")
    env = dict(os.environ)
    env["PYTHONPATH"] = (REPO_SRC + os.pathsep if REPO_SRC else "") + VERIF
    p = subprocess.run([py, "-m", "symx.main", "--replay", path], cwd=VERIF, env=env, capture_output=True, text=True,
                       timeout=900)
    return p.returncode, p.stdout + p.stderr


def load_findings():
    path = os.path.join(VERIF, "known_findings.json")
    if not os.path.exists(path):
        return []
    with open(path) as fh:
        return json.load(fh).get("findings", [])


# ---------------------------------------------------------------------------------------------
def run_check(prop, tier, seed, nproc=None):
    t0 = time.time()
    modname = f"harness.{prop.lower()}"
    mod = importlib.import_module(modname)
    meta = getattr(mod, "META", {})
    from . import shims

    # stub validation (translator validation) before anything else
    shims.import_all()
    shims.remember_originals()
    stub_report = {}
    try:
        shims.install(choice_sets=False)
        stub_report = shims.validate_stubs(seed)
        if hasattr(mod, "validate"):
            stub_report.update(mod.validate(seed) or {})
    except BaseException as ex:  # noqa
        print("HARNESS-ERROR stub validation failed:\n" + "".join(traceback.format_exception(ex))[-2000:])
        return EXIT_HARNESS

    jobs = mod.jobs(tier, seed)
    nproc = nproc or int(os.environ.get("SYMX_NPROC") or 0) or min(16, os.cpu_count() or 4)
    # wall-time sizing of the thorough tier: the per-job budgets are scaled so that the whole check fits the wall budget
    # (jobs that run out of their budget are reported as truncated: the bound of the claim, not a failure)
    wall_cap = float(os.environ.get("SYMX_WALL_S") or 0) or (600.0 if tier == "thorough" else 0.0)
    budget_scale = 1.0
    if wall_cap:
        total = sum(j.get("budget_s", 600) for j in jobs)
        if total / nproc > wall_cap:
            budget_scale = wall_cap * nproc / total
            for j in jobs:
                j["budget_s"] = max(20.0, j.get("budget_s", 600) * budget_scale)
    results = []
    ctx = mp.get_context("fork")
    with ctx.Pool(nproc, maxtasksperchild=1) as pool:
        for r in pool.imap_unordered(_worker, [(modname, j, tier, seed) for j in jobs], chunksize=1):
            results.append(r)
            flag = "ERR " if r["error"] else ""
            print(f"  [{prop}] {flag}job {r['job']}: paths={r['paths']} oblig={r['obligations']} "
                  f"disch={r['discharged']}+{r['syntactic']}syn inconcl={r['inconclusive']} "
                  f"viol={len(r['violated'])} {r['wall_s']:.1f}s {'TRUNCATED' if r['truncated'] else ''}", flush=True)
    results.sort(key=lambda r: r["job"])

    errors = [r for r in results if r["error"]]
    # aggregate
    agg = {"paths": 0, "obligations": 0, "discharged": 0, "syntactic": 0, "inconclusive": 0, "nontrivial": 0,
           "decided_branches": 0, "sched_picks": 0}
    by_status, by_outcome, reached, stats, functions, stubs, unmod = {}, {}, {}, {}, set(), [], []
    extra = {}
    for r in results:
        for k in agg:
            agg[k] += r.get(k, 0)
        for d, src in ((by_status, r["by_status"]), (by_outcome, r["by_outcome"]), (reached, r["reached"]),
                       (stats, r["stats"])):
            for k, v in src.items():
                d[k] = d.get(k, 0) + v
        functions |= set(r["functions"])
        for s in r.get("stubs", []):
            if s not in stubs:
                stubs.append(s)
        unmod += r["unmodelled"][:2]
        for k, v in r.items():
            if k.startswith("x_") and isinstance(v, (int, float)):
                extra[k[2:]] = extra.get(k[2:], 0) + v

    # violations -> replay -> classify
    findings = load_findings()
    known = {f["key"]: f for f in findings if f.get("property") == prop and f.get("status") == "known"}
    seen_keys = {}
    for r in results:
        for v in r["violated"]:
            seen_keys.setdefault(v["key"], []).append((r, v))
    new_violations, known_hits, harness_errors, replays = [], [], [], []
    os.makedirs(os.path.join(OUT, "replays", prop), exist_ok=True)
    twin = _ground_twins(prop, modname, meta, jobs, seed, nproc, seen_keys)
    for key, lst in sorted(seen_keys.items()):
        reproduced = None
        tried = 0
        for r, v in lst[:4]:
            rp = {"property": prop, "harness": modname, "job": r["job"], "fn": r["fn"],
                  "params": v.get("params") or r["params"],
                  "model": v["model"], "label": v["label"], "key": key, "info": v.get("info"),
                  "decisions": v["decisions"]}
            h = hashlib.sha1(json.dumps(rp, sort_keys=True).encode()).hexdigest()[:12]
            path = os.path.join(OUT, "replays", prop, f"{h}.json")
            with open(path, "w") as fh:
                json.dump(rp, fh, indent=1, sort_keys=True)
            code, outp = _run_replay(path)
            tried += 1
            replays.append({"key": key, "path": path, "exit": code, "tail": outp[-600:]})
            if code == 0:
                reproduced = (path, outp, v)
                break
        if reproduced is None:
            harness_errors.append((key, lst[0][1], replays[-1]))
            continue
        path, outp, v = reproduced
        if key in known:
            known_hits.append((key, known[key], path, len(lst)))
        else:
            new_violations.append((key, v, path, len(lst)))

    wall = time.time() - t0
    exhaustive = not any(r["truncated"] for r in results) and not errors
    n_viol = sum(len(r["violated"]) for r in results)
    samples = []
    for r in results:
        samples += r["samples"][:1]
    samples = samples[:8]
    for key, lst in sorted(seen_keys.items())[:6]:
        r, v = lst[0]
        samples.append({"counterexample": {"job": r["job"], "label": v["label"], "key": key, "model": v["model"],
                                           "negated_obligation_smt": v.get("smt"), "occurrences": len(lst)}})
    evidence = {
        "property_id": prop, "tier": tier, "seed": seed, "level": "other",
        "coverage": {
            "explanation": meta.get("explanation", "") + " Bounded symbolic execution of the real function bodies in "
            "/repo/src (regenerated from the working tree on every run): every branch on a symbolic value and every "
            "obligation is decided by z3 (cvc5 fallback); bounded, not a proof.",
            "evaluations": agg["paths"],
            "distinct_nontrivial": agg["nontrivial"],
            "rule": "one evaluation = one explored path (distinct vector of solver-decided forks) of one member of the "
                    "enumerated family; non-trivial = the path had at least one fork on a symbolic value or at least "
                    "one obligation that needed the solver (not closed by canonical-form identity)",
            "samples": samples,
            "obligations": agg["obligations"],
            "discharged": agg["discharged"] + agg["syntactic"],
            "discharged_by_solver": agg["discharged"],
            "discharged_by_canonical_form": agg["syntactic"],
            "inconclusive": agg["inconclusive"],
            "violated_obligations": n_viol,
            "exhaustive": exhaustive,
            "families": [r["job"] for r in results],
            "jobs": len(results),
            "paths_by_status": by_status,
            "paths_by_outcome": by_outcome,
            "decided_branch_conditions": agg["decided_branches"],
            "schedule_picks": agg["sched_picks"],
            "functions_encoded": sorted(functions),
            "stubs": stubs,
            "bounds": {**meta.get("bounds", {}), "time": f"per-job budgets scaled by {budget_scale:.3f} to fit a wall budget of "
                       f"{wall_cap:.0f} s on {nproc} processes" if budget_scale != 1.0 else "per-job budgets as listed by the harness"},
            "outside_the_claim": meta.get("outside", []),
            "solver_queries": {k: v for k, v in stats.items() if k != "solver_time"},
            "solver_time_s": round(stats.get("solver_time", 0.0), 2),
            "vacuity_witnesses": reached,
            "stub_validation": stub_report,
            "truncated_jobs": [r["job"] for r in results if r["truncated"]],
            "ground_twin_only_jobs": [r["job"] for r in results if r.get("twin_only")],
            "ground_twin": {"what": "every job re-run on the unshimmed library in doubles at the mid-point and at seeded random "
                            "points of the input ranges (validation of harness and oracle; not the deciding step)",
                            "runs": twin["runs"], "outside_precondition": twin["outside_precondition"],
                            "failed_obligation_keys": twin["failed_keys"], "errors": twin["errors"][:5]},
            "harness_counters": extra,
            "inconclusive_reasons": unmod[:10],
            "known_findings_hit": [{"key": k, "replay": os.path.relpath(p, VERIF), "occurrences": n}
                                   for k, _f, p, n in known_hits],
            "replays": [{"key": x["key"], "exit": x["exit"], "path": os.path.relpath(x["path"], VERIF)} for x in replays],
        },
        "assumptions": meta.get("assumptions", []) + [
            "python floats are modelled as mathematical reals; concrete irrational square roots are replaced by "
            "rationals within 1e-40; every counterexample is replayed in IEEE doubles on the unshimmed library",
        ],
        "wall_s": round(wall, 2),
        "violations": len(new_violations),
    }
    os.makedirs(os.path.join(OUT, "evidence"), exist_ok=True)
    with open(os.path.join(OUT, "evidence", f"{prop}.json"), "w") as fh:
        json.dump(_jsonable(evidence), fh, indent=1)

    import classy_blocks as _cb
    print(f"[{prop}] library: {os.path.dirname(_cb.__file__)}")
    print(f"[{prop}] tier={tier} jobs={len(results)} paths={agg['paths']} obligations={agg['obligations']} "
          f"discharged={agg['discharged']}+{agg['syntactic']}syn inconclusive={agg['inconclusive']} "
          f"violated={n_viol} solver={stats.get('solver_time', 0):.1f}s wall={wall:.1f}s exhaustive={exhaustive}")
    if by_outcome:
        print(f"[{prop}] outcomes: {by_outcome}")
    rc = EXIT_OK
    for key, f, path, n in known_hits:
        print(f"KNOWN-FINDING: property={prop} {key}: {f.get('what', '')} (x{n}, replay={os.path.relpath(path, VERIF)})")
    for r in errors:
        print(f"HARNESS-ERROR job {r['job']}:\n{r['error']}")
        rc = EXIT_HARNESS
    for key, v, rep in harness_errors:
        print(f"HARNESS-ERROR counterexample for {key} did not reproduce on the real code ({rep['path']}):\n{rep['tail']}")
        rc = EXIT_HARNESS
    # a harness whose every path was inconclusive decided nothing
    if agg["obligations"] > 0 and agg["discharged"] + agg["syntactic"] == 0 and n_viol == 0:
        print(f"HARNESS-ERROR nothing was decided (all {agg['obligations']} obligations inconclusive)")
        rc = EXIT_HARNESS
    for need in meta.get("must_reach", []):
        if not reached.get(need):
            print(f"HARNESS-ERROR vacuity: witness '{need}' was never reached")
            rc = EXIT_HARNESS
    for key, v, path, n in new_violations:
        print(f"VIOLATION property={prop} replay={path}")
        print(f"  obligation: {v['label']} [key {key}] x{n}; model: {json.dumps(v['model'])[:400]}")
        rc = EXIT_VIOLATION
    return rc
