"""symx core: proxy reals/ints/bools + re-execution DFS explorer, every decision made by an SMT solver.

Reals are canonical sparse Laurent polynomials over Q in "generators" (input symbols, sqrt symbols,
reciprocal symbols, uninterpreted-function applications).  They are turned into z3 terms only when a
query is issued.  See /verif/DESIGN.md section 2.1.
"""
import math
import time
from fractions import Fraction

import numpy as np
import z3

SQRT_SCALE = 10 ** 20  # concrete irrational roots are replaced by a rational within 1e-20 (smaller numerals: faster nlsat)


class PathAbort(BaseException):
    """Control flow of the engine (never caught by `except Exception` in the code under test)."""


class Infeasible(PathAbort):
    pass


class Unmodelled(PathAbort):
    """The code reached an operation the engine has no model for; the path is inconclusive."""


class NaNProduced(ArithmeticError):
    """A NaN/Inf-producing operation (numpy would continue with nan and a RuntimeWarning). An ordinary exception so
    that harnesses can map it to the library's observable behaviour at that point."""


class BoundExceeded(PathAbort):
    """An unwinding bound was hit (reported, never swallowed)."""


class SolverUnknown(PathAbort):
    pass


# ---------------------------------------------------------------------------------------------
# global statistics of this process (merged by the runner)
STATS = {"sat": 0, "unsat": 0, "unknown": 0, "solver_time": 0.0, "cache_hits": 0, "cvc5_sat": 0, "cvc5_unsat": 0,
         "cvc5_unknown": 0}
QUERY_TIMEOUT_MS = 20000
import os as _os
DEBUG = bool(_os.environ.get("SYMX_DEBUG"))
USE_CVC5 = bool(_os.environ.get("SYMX_CVC5"))   # cvc5 1.4 fallback (its time limit is not reliable inside nl-cov; off by default)


def _vars_of(e, _cache={}):
    key = e.get_id()
    r = _cache.get(key)
    if r is not None:
        return r[1]
    out, stack, seen = set(), [e], set()
    while stack:
        x = stack.pop()
        i = x.get_id()
        if i in seen:
            continue
        seen.add(i)
        if z3.is_const(x) and x.decl().kind() == z3.Z3_OP_UNINTERPRETED:
            out.add(x.decl().name())
        else:
            stack.extend(x.children())
    r = frozenset(out)
    if len(_cache) > 200000:
        _cache.clear()
    _cache[key] = (e, r)  # keep e alive: z3 AST ids are recycled after garbage collection
    return r


def _guarded_check(solver, timeout_ms):
    """solver.check() with a watchdog: z3's soft timeout is not always honoured inside nlsat"""
    import threading

    timer = threading.Timer(timeout_ms / 1000.0 + 2.0, solver.ctx.interrupt)
    timer.daemon = True
    timer.start()
    try:
        r = str(solver.check())
    except z3.Z3Exception:
        r = "unknown"
    finally:
        timer.cancel()
    return r


def _cvc5_check(smt2: str, timeout_ms: int) -> str:
    try:
        import cvc5
    except Exception:  # pragma: no cover
        return "unknown"
    try:
        slv = cvc5.Solver()
        slv.setOption("tlimit-per", str(timeout_ms))
        slv.setOption("produce-models", "false")
        slv.setLogic("ALL")
        parser = cvc5.InputParser(slv)
        parser.setStringInput(cvc5.InputLanguage.SMT_LIB_2_6, smt2 + "\n(check-sat)\n", "q")
        sm = parser.getSymbolManager()
        res = None
        while True:
            cmd = parser.nextCommand()
            if cmd.isNull():
                break
            out = cmd.invoke(slv, sm)
            if "sat" in str(out):
                res = str(out).strip()
        if res in ("sat", "unsat"):
            return res
    except Exception:
        return "unknown"
    return "unknown"


class Ctx:
    """One path: generator registry, path condition, decisions, obligations."""

    cur = None

    def __init__(self, prefix=(), timeout_ms=None):
        self.names = []          # generator index -> name
        self.zv = []             # generator index -> z3 const (Real, or ToReal(Int))
        self.positive = set()    # generators known > 0
        self.nonzero = set()     # generators known != 0
        self.integer = set()
        self.by_name = {}
        self.memo = {}           # ("sqrt"|"inv"|uf, key) -> generator index
        self.sqrt_rad = {}       # generator index -> radicand R
        self.inv_den = {}        # generator index -> polynomial D with g*D == 1
        self.axiom_hooks = []    # callables (ctx, name, arg, generator) run when an uninterpreted application is created
        self._in_hook = False
        self.uf_apps = []        # (name, arg R, generator)
        self.angles = {}         # generator index -> AngleInfo
        self.cons = []           # [(z3 expr, frozenset(var names))]
        self.cons_version = 0
        self.prefix = list(prefix)
        self.pos = 0
        self.trail = []          # (decision, alternative_open)
        self.assumed_feasible = 0
        self.obligations = []    # dicts
        self.notes = {}
        self.tokens = []         # formatted values: token index -> value
        self.inputs = {}         # name -> ("real"|"int"|"bool", z3 const)
        self.nqueries = 0
        self.timeout_ms = timeout_ms or QUERY_TIMEOUT_MS
        self._qcache = {}
        self.outcome = None
        self.status = None
        self.symbolic_decisions = 0

    # ---- generators -------------------------------------------------------------------------
    def new_gen(self, name, positive=False, integer=False, nonzero=False):
        if name in self.by_name:
            raise RuntimeError(f"generator {name} defined twice")
        i = len(self.names)
        self.names.append(name)
        if integer:
            v = z3.Int(name)
            self.zv.append(z3.ToReal(v))
            self.integer.add(i)
        else:
            v = z3.Real(name)
            self.zv.append(v)
        if positive:
            self.positive.add(i)
            self.nonzero.add(i)
        if nonzero:
            self.nonzero.add(i)
        self.by_name[name] = i
        return i

    def add(self, e, vs=None):
        if isinstance(e, B):
            e = e.e
        if isinstance(e, (bool, np.bool_)):
            if not e:
                raise Infeasible()
            return
        e = z3.simplify(e)
        if z3.is_true(e):
            return
        if z3.is_false(e):
            raise Infeasible()
        self.cons.append((e, _vars_of(e) if vs is None else vs))
        self.cons_version += 1

    # ---- solver ------------------------------------------------------------------------------
    def _slice(self, need):
        need = set(need)
        chosen, rest, changed = [], self.cons, True
        while changed:
            changed = False
            nxt = []
            for c, vs in rest:
                if not vs or (vs & need):
                    chosen.append(c)
                    if not vs <= need:
                        need |= vs
                        changed = True
                else:
                    nxt.append((c, vs))
            rest = nxt
        return chosen, rest

    def check(self, *extra, want_model=False, timeout_ms=None):
        """sat/unsat/unknown of pc /\\ extra (cone-of-influence slice of pc)."""
        need = set()
        for e in extra:
            need |= _vars_of(e)
        chosen, rest = self._slice(need)
        key = (tuple(sorted(c.get_id() for c in chosen)), tuple(e.get_id() for e in extra))
        if not want_model:
            r = self._qcache.get(key)
            if r is not None:
                STATS["cache_hits"] += 1
                return r[0]
        s = z3.Solver()
        s.set("timeout", int(timeout_ms or self.timeout_ms))
        s.add(*chosen)
        s.add(*extra)
        t = time.time()
        r = _guarded_check(s, int(timeout_ms or self.timeout_ms))
        dt = time.time() - t
        if DEBUG and dt > 2:
            print(f"SLOWQUERY {dt:.1f}s {r} nchosen={len(chosen)}", str(extra[0])[:300] if extra else "")
        STATS["solver_time"] += dt
        self.nqueries += 1
        if r == "unknown" and USE_CVC5:
            r2 = _cvc5_check(s.to_smt2().replace("(check-sat)", ""), int(timeout_ms or self.timeout_ms))
            STATS["cvc5_" + r2] += 1
            STATS["solver_time"] += time.time() - t - dt
            if r2 == "unsat" or (r2 == "sat" and not want_model):
                r = r2
        STATS[r] += 1
        self._qcache[key] = (r, extra)  # keeps the expressions alive (ids are recycled otherwise)
        self.last_solver = s
        self.last_rest = rest
        return r

    def model_for_last(self):
        """Full model: model of the last (sat) slice joined with a model of the untouched rest of pc."""
        m = {}
        try:
            mod = self.last_solver.model()
            self._read_model(mod, m)
        except z3.Z3Exception:
            return None
        if self.last_rest:
            s = z3.Solver()
            s.set("timeout", int(self.timeout_ms))
            s.add(*[c for c, _ in self.last_rest])
            if _guarded_check(s, int(self.timeout_ms)) == "sat":
                self._read_model(s.model(), m, keep=True)
        return m

    def _read_model(self, mod, out, keep=False):
        for d in mod.decls():
            n = d.name()
            if keep and n in out:
                continue
            v = mod[d]
            out[n] = _val(v)

    def model_of_pc(self):
        s = z3.Solver()
        s.set("timeout", int(self.timeout_ms))
        s.add(*[c for c, _ in self.cons])
        m = {}
        self.last_pc_status = _guarded_check(s, int(self.timeout_ms))
        if self.last_pc_status == "sat":
            self._read_model(s.model(), m)
        return m

    def full_check(self):
        s = z3.Solver()
        s.set("timeout", int(self.timeout_ms))
        s.add(*[c for c, _ in self.cons])
        return _guarded_check(s, int(self.timeout_ms))

    # ---- branching ---------------------------------------------------------------------------
    def branch(self, cond):
        if isinstance(cond, (bool, np.bool_)):
            return bool(cond)
        cond = z3.simplify(cond)
        if z3.is_true(cond):
            return True
        if z3.is_false(cond):
            return False
        if self.pos < len(self.prefix):
            d, alt, forked = self.prefix[self.pos]
            self.pos += 1
            self.trail.append((d, alt, forked))
            if forked:
                self.symbolic_decisions += 1
                self.add(cond if d else z3.Not(cond))
            return d
        ncond = z3.Not(cond)
        can_t = self.check(cond)
        if can_t == "unsat":
            # implied decision: pc entails not cond (pc is satisfiable by invariant); pc unchanged
            d, alt, forked = False, False, False
        else:
            can_f = self.check(ncond)
            if can_f == "unsat":
                d, alt, forked = True, False, False
            else:
                if "unknown" in (can_t, can_f):
                    self.assumed_feasible += 1
                d, alt, forked = True, True, True
                if DEBUG:
                    print("FORK", str(cond)[:200])
        self.trail.append((d, alt, forked))
        self.pos += 1
        self.prefix.append((d, alt, forked))
        if forked:
            self.symbolic_decisions += 1
            self.add(cond)
        return d

    # ---- obligations -------------------------------------------------------------------------
    def prove(self, cond, label, key=None, info=None):
        """Obligation: pc entails cond. Returns verdict string."""
        rec = {"label": label, "key": key or label}
        if info:
            rec["info"] = info
        if isinstance(cond, B):
            cond = cond.e
        if isinstance(cond, (bool, np.bool_)):
            rec["verdict"] = "syntactic" if cond else "violated"
            if not cond:
                rec["model"] = self.model_of_pc()
                if self.cons and self.last_pc_status != "sat":
                    # no witness for this path: an infeasible path proves anything, an undecided one proves nothing
                    rec["verdict"] = "discharged" if self.last_pc_status == "unsat" else "inconclusive"
            self.obligations.append(rec)
            return rec["verdict"]
        cond = z3.simplify(cond)
        if z3.is_true(cond):
            rec["verdict"] = "syntactic"
            self.obligations.append(rec)
            return "syntactic"
        neg = z3.simplify(z3.Not(cond))
        r = self.check(neg, want_model=True)
        if r == "unsat":
            rec["verdict"] = "discharged"
        elif r == "sat":
            rec["verdict"] = "violated"
            rec["model"] = self.model_for_last()
        else:
            rec["verdict"] = "inconclusive"
        try:
            s = neg.sexpr()
            rec["smt"] = s if len(s) < 600 else s[:600] + "..."
        except Exception:
            pass
        self.obligations.append(rec)
        return rec["verdict"]

    def feasible(self, cond):
        """Reachability witness: is pc /\\ cond satisfiable?"""
        if isinstance(cond, B):
            cond = cond.e
        if isinstance(cond, (bool, np.bool_)):
            return "sat" if cond else "unsat"
        return self.check(z3.simplify(cond))

    def token(self, value):
        self.tokens.append(value)
        return f"«{len(self.tokens) - 1}»"


def _val(v):
    if z3.is_int_value(v):
        return v.as_long()
    if z3.is_rational_value(v):
        return Fraction(v.numerator_as_long(), v.denominator_as_long())
    if z3.is_algebraic_value(v):
        a = v.approx(30)
        return Fraction(a.numerator_as_long(), a.denominator_as_long())
    if z3.is_true(v):
        return True
    if z3.is_false(v):
        return False
    return str(v)


# ---------------------------------------------------------------------------------------------
class B:
    """symbolic boolean"""

    __slots__ = ("e",)

    def __init__(self, e):
        self.e = e

    def __bool__(self):
        return Ctx.cur.branch(self.e)

    def __and__(self, o):
        return B(z3.And(self.e, _bz(o)))

    __rand__ = __and__

    def __or__(self, o):
        return B(z3.Or(self.e, _bz(o)))

    __ror__ = __or__

    def __invert__(self):
        return B(z3.Not(self.e))

    def __eq__(self, o):
        return B(self.e == _bz(o))

    def __ne__(self, o):
        return B(self.e != _bz(o))

    __hash__ = None

    def __repr__(self):
        return "B<...>"


def _bz(o):
    if isinstance(o, B):
        return o.e
    if isinstance(o, (bool, np.bool_)):
        return z3.BoolVal(bool(o))
    raise TypeError(type(o))


def z_and(*bs):
    return B(z3.And(*[_bz(b) for b in bs]))


def z_or(*bs):
    return B(z3.Or(*[_bz(b) for b in bs]))


def z_not(b):
    return B(z3.Not(_bz(b)))


def z_implies(a, b):
    return B(z3.Implies(_bz(a), _bz(b)))


# ---------------------------------------------------------------------------------------------
def _frac(x):
    if isinstance(x, Fraction):
        return x
    if isinstance(x, (bool, np.bool_)):
        return Fraction(int(x))
    if isinstance(x, (int, np.integer)):
        return Fraction(int(x))
    if isinstance(x, (float, np.floating)):
        x = float(x)
        if x != x or x in (float("inf"), float("-inf")):
            raise Unmodelled(f"non-finite float {x} entered symbolic arithmetic")
        return Fraction(x)
    raise TypeError(type(x))


def _mmul(m1, m2):
    if not m1:
        return m2
    if not m2:
        return m1
    d = dict(m1)
    for g, e in m2:
        v = d.get(g, 0) + e
        if v:
            d[g] = v
        else:
            del d[g]
    return tuple(sorted(d.items()))


class AngleInfo:
    """A pinned angle generator theta: cos/sin of theta/m are known reals (rationals or R)."""

    def __init__(self, m, c, s, approx):
        self.m, self.c, self.s, self.approx = m, c, s, approx

    def cos_sin_multiple(self, k):
        """cos, sin of k*(theta/m) for integer k by angle addition"""
        c, s = self.c, self.s
        neg = k < 0
        k = abs(k)
        rc, rs = R(1), R(0)          # angle 0
        bc, bs = c, s
        while k:
            if k & 1:
                rc, rs = rc * bc - rs * bs, rs * bc + rc * bs
            bc, bs = bc * bc - bs * bs, 2 * bs * bc
            k >>= 1
        return (rc, -rs) if neg else (rc, rs)


class R:
    """symbolic real in canonical Laurent-polynomial form"""

    __slots__ = ("p", "_z")

    def __init__(self, p=0):
        self._z = None
        if isinstance(p, dict):
            self.p = p
        elif isinstance(p, R):
            self.p = p.p
        else:
            f = _frac(p)
            self.p = {(): f} if f else {}

    # numpy scalar-array interplay: arrays of dtype object call our operators elementwise.
    @staticmethod
    def gen(i, e=1):
        return R({((i, e),): Fraction(1)})

    @staticmethod
    def lift(x):
        if isinstance(x, R):
            return x
        if isinstance(x, np.ndarray):
            return NotImplemented
        try:
            return R(x)
        except TypeError:
            return NotImplemented

    def concrete(self):
        p = self.p
        if not p:
            return Fraction(0)
        if len(p) == 1 and () in p:
            return p[()]
        return None

    @property
    def is_concrete(self):
        return self.concrete() is not None

    def gens(self):
        out = set()
        for m in self.p:
            for g, _ in m:
                out.add(g)
        return out

    # ---- arithmetic --------------------------------------------------------------------------
    def __add__(s, o):
        o = R.lift(o)
        if o is NotImplemented:
            return o
        if not o.p:
            return s
        if not s.p:
            return o
        d = dict(s.p)
        for m, c in o.p.items():
            v = d.get(m, 0) + c
            if v:
                d[m] = v
            else:
                del d[m]
        r = _mk(d, s, o)
        ctx = Ctx.cur
        if ctx is not None and (ctx.sqrt_rad or ctx.inv_den) and not isinstance(r, I):
            for m in d:
                for g, e in m:
                    if (e <= -2 and g in ctx.sqrt_rad) or (e >= 1 and g in ctx.inv_den):
                        return _reduce_sqrt(r)
        return r

    __radd__ = __add__

    def __neg__(s):
        return _mk({m: -c for m, c in s.p.items()}, s, s)

    def __pos__(s):
        return s

    def __sub__(s, o):
        o = R.lift(o)
        if o is NotImplemented:
            return o
        return s + (-o)

    def __rsub__(s, o):
        return (-s) + o

    def __mul__(s, o):
        o = R.lift(o)
        if o is NotImplemented:
            return o
        if not s.p or not o.p:
            return _mk({}, s, o)
        d = {}
        for m1, c1 in s.p.items():
            for m2, c2 in o.p.items():
                m = _mmul(m1, m2)
                v = d.get(m, 0) + c1 * c2
                if v:
                    d[m] = v
                else:
                    d.pop(m, None)
        return _reduce_sqrt(_mk(d, s, o))

    __rmul__ = __mul__

    def inv(s):
        ctx = Ctx.cur
        if not s.p:
            raise ZeroDivisionError("division by (syntactic) zero")
        if len(s.p) == 1:
            (m, c), = s.p.items()
            for g, _e in m:
                if g not in ctx.nonzero:
                    if not ctx.branch(ctx.zv[g] != 0):
                        raise ZeroDivisionError("symbolic zero division")
                    ctx.nonzero.add(g)
            return R({tuple((g, -e) for g, e in m): 1 / c})
        # normalise: pull out the common monomial (non-zero generators) and the leading coefficient, so that
        # 1/(k^4 * D) and 1/D share one reciprocal generator
        p = s.p
        gens = set()
        for m in p:
            for g, _ in m:
                gens.add(g)
        common = []
        for g in sorted(gens):
            if g not in ctx.nonzero:
                continue
            e = min(dict(m).get(g, 0) for m in p)
            if e:
                common.append((g, e))
        if common:
            cm = tuple((g, -e) for g, e in common)
            p = {_mmul(m, cm): c for m, c in p.items()}
        lead_m = max(p, key=lambda m: (sum(abs(e) for _, e in m), m))
        lead = p[lead_m]
        prim = R({m: c / lead for m, c in p.items()})
        pre = R({tuple((g, -e) for g, e in common): 1 / lead})
        if len(prim.p) == 1:
            return pre * prim.inv()
        key = ("inv", _key(prim))
        g = ctx.memo.get(key)
        if g is None:
            sg = prim.sign_syntactic()
            if sg is None:
                if not ctx.branch(prim.z() != 0):
                    raise ZeroDivisionError("symbolic zero division")
            g = ctx.new_gen(f"inv!{len(ctx.names)}", nonzero=True, positive=(sg == 1))
            ctx.add(ctx.zv[g] * prim.z() == 1)
            ctx.memo[key] = g
            if all(e >= 0 for m in prim.p for _, e in m):
                ctx.inv_den[g] = prim
        return pre * R.gen(g)

    def __truediv__(s, o):
        o = R.lift(o)
        if o is NotImplemented:
            return o
        c = o.concrete()
        if c is not None:
            if c == 0:
                raise ZeroDivisionError("division by zero")
            return s * R(1 / c)
        return s * o.inv()

    def __rtruediv__(s, o):
        return R.lift(o) * s.inv()

    def __floordiv__(s, o):
        o = R.lift(o)
        a, b = s.concrete(), o.concrete()
        if a is not None and b is not None:
            return _mk({(): Fraction(a // b)} if a // b else {}, s, o)
        raise Unmodelled("symbolic floor division")

    def __mod__(s, o):
        o = R.lift(o)
        a, b = s.concrete(), o.concrete()
        if a is not None and b is not None:
            return _mk({(): Fraction(a % b)} if a % b else {}, s, o)
        raise Unmodelled("symbolic modulo")

    def __pow__(s, k):
        if isinstance(k, R):
            kc = k.concrete()
            if kc is None:
                return _pow_uf(s, k)
            k = kc
        if isinstance(k, (float, np.floating, Fraction)) and k == int(k):
            k = int(k)
        if isinstance(k, (int, np.integer)):
            k = int(k)
            if k < 0:
                return s.inv() ** (-k)
            r, b = R(1), s
            while k:
                if k & 1:
                    r = r * b
                b = b * b
                k >>= 1
            return r
        if k == 0.5:
            return s.sqrt()
        c = s.concrete()
        if c is not None:
            if c < 0:
                raise Unmodelled("fractional power of a negative number")
            return R(float(c) ** float(k))
        kf = Fraction(k).limit_denominator(10 ** 6) if not isinstance(k, Fraction) else k
        if kf.numerator == 1 and kf.denominator > 1 and abs(float(kf) - float(k)) < 1e-15:
            return _root(s, kf.denominator)
        return _pow_uf(s, R(k))

    def __rpow__(s, base):
        b = R.lift(base)
        return _pow_uf(b, s)

    def sqrt(s, nonneg=False):
        ctx = Ctx.cur
        c = s.concrete()
        if c is not None:
            if c < 0:
                raise Unmodelled("sqrt of a negative concrete number (numpy would give nan)")
            n, d = math.isqrt(c.numerator), math.isqrt(c.denominator)
            if n * n == c.numerator and d * d == c.denominator:
                return R(Fraction(n, d))
            # relative (not absolute) precision 1/SQRT_SCALE: normalise to m * 4^j with m in [1/4, 4)
            j = (c.numerator.bit_length() - c.denominator.bit_length()) // 2
            m_ = c / (Fraction(4) ** j)
            r_ = Fraction(math.isqrt(m_.numerator * SQRT_SCALE * SQRT_SCALE // m_.denominator), SQRT_SCALE)
            return R(r_ * (Fraction(2) ** j))
        # factor even powers of positive generators common to all monomials, and the content
        out = R(1)
        p = s.p
        gens = set()
        for m in p:
            for g, _ in m:
                gens.add(g)
        for g in gens:
            if g not in ctx.positive:
                continue
            e = min(dict(m).get(g, 0) for m in p)
            e -= e % 2
            if e:
                p = {_mmul(m, ((g, -e),)): c for m, c in p.items()}
                out = out * R({((g, e // 2),): Fraction(1)})
        rest = R(p)
        rc = rest.concrete()
        if rc is not None:
            return out * rest.sqrt()
        if len(rest.p) > 1:
            q = _poly_sqrt(rest.p)
            if q is not None:
                return out * abs(R(q))
        # monic normalisation: leading coefficient (of the smallest monomial) -> 1
        lead_m = max(rest.p, key=lambda m: (sum(abs(e) for _, e in m), m))
        lead = rest.p[lead_m]
        if lead < 0:
            # radicand = -|lead| * monic: sign of the monic part is unknown; keep the sign in the generator
            factor, monic = R(1), rest
        else:
            factor, monic = R(lead).sqrt(), R({m: c / lead for m, c in rest.p.items()})
            if len(monic.p) > 1:
                q = _poly_sqrt(monic.p)
                if q is not None:
                    return out * factor * abs(R(q))
        key = ("sqrt", _key(monic))
        g = ctx.memo.get(key)
        if g is None:
            if not nonneg and monic.sign_syntactic() is None:
                if not ctx.branch(monic.z() >= 0):
                    raise Unmodelled("sqrt of a negative symbolic number (numpy would give nan)")
            g = ctx.new_gen(f"sqrt!{len(ctx.names)}")
            x = ctx.zv[g]
            ctx.add(z3.And(x >= 0, x * x == monic.z()))
            ctx.memo[key] = g
            ctx.sqrt_rad[g] = monic
            if monic.sign_syntactic() == 1:
                ctx.positive.add(g)
                ctx.nonzero.add(g)
        return out * factor * R.gen(g)

    # ---- z3 ----------------------------------------------------------------------------------
    def z(s):
        if s._z is not None:
            return s._z
        zv = Ctx.cur.zv
        terms = []
        for m, c in s.p.items():
            num, den = None, None
            for g, e in m:
                x = zv[g]
                if e > 0:
                    for _ in range(e):
                        num = x if num is None else num * x
                else:
                    for _ in range(-e):
                        den = x if den is None else den * x
            t = z3.RealVal(str(c))
            if num is not None:
                t = num if c == 1 else t * num
            if den is not None:
                t = t / den
            terms.append(t)
        if not terms:
            r = z3.RealVal(0)
        else:
            r = z3.Sum(terms) if len(terms) > 1 else terms[0]
        s._z = r
        return r

    def sign_syntactic(s):
        """+1 / -1 / 0 if the sign is evident from the canonical form, else None"""
        if not s.p:
            return 0
        pos = Ctx.cur.positive
        sg = None
        for m, c in s.p.items():
            for g, e in m:
                if g not in pos and e % 2:
                    return None
            # monomial value >= 0 ; strictly > 0 if all generators positive
            t = 1 if c > 0 else -1
            if sg is None:
                sg = t
            elif sg != t:
                return None
        # non-strict in general (even powers of unknown-sign gens may vanish): strict only if all gens positive
        for m in s.p:
            if all(g in pos for g, _ in m):
                return sg
        return None

    def _cmp(s, o, op):
        o = R.lift(o)
        if o is NotImplemented:
            return o
        d = s - o
        c = d.concrete()
        if c is not None:
            return _OPS[op](c, 0)
        sg = d.sign_syntactic()
        if sg is not None and sg != 0:
            return _OPS[op](sg, 0)
        return B(_OPS[op](d.z(), 0))

    def __lt__(s, o): return s._cmp(o, "lt")
    def __le__(s, o): return s._cmp(o, "le")
    def __gt__(s, o): return s._cmp(o, "gt")
    def __ge__(s, o): return s._cmp(o, "ge")
    def __eq__(s, o):
        if o is None:
            return False
        return s._cmp(o, "eq")
    def __ne__(s, o):
        if o is None:
            return True
        return s._cmp(o, "ne")
    __hash__ = None

    def __abs__(s):
        return s if (s >= 0) else -s

    def __bool__(s):
        c = s.concrete()
        if c is not None:
            return c != 0
        return bool(s != 0)

    def __float__(s):
        c = s.concrete()
        if c is None:
            raise Unmodelled("float() of a symbolic value (C boundary)")
        return float(c)

    def __int__(s):
        c = s.concrete()
        if c is None:
            raise Unmodelled("int() of a symbolic value")
        return int(c)

    def __index__(s):
        c = s.concrete()
        if c is not None and c.denominator == 1:
            return int(c)
        raise Unmodelled("index of symbolic real")

    def __round__(s, n=None):
        c = s.concrete()
        if c is None:
            raise Unmodelled("round() of symbolic")
        return round(float(c), n)

    def __repr__(s):
        return Ctx.cur.token(s) if Ctx.cur is not None else "R<?>"

    __str__ = __repr__

    def __format__(s, spec):
        return Ctx.cur.token(s)

    def __deepcopy__(s, memo):
        return s

    def __copy__(s):
        return s

    def conjugate(s):
        return s

    @property
    def real(s):
        return s

    @property
    def imag(s):
        return R(0)

    # ---- transcendental kernels -------------------------------------------------------------
    def _angle_multiple(s):
        """if s == (k/m) * theta for a registered angle generator, return (info, k)"""
        if len(s.p) != 1:
            return None
        (m, c), = s.p.items()
        if len(m) != 1 or m[0][1] != 1:
            return None
        info = Ctx.cur.angles.get(m[0][0])
        if info is None:
            return None
        k = c * info.m
        if k.denominator != 1:
            return None
        return info, int(k)

    def cos(s):
        c = s.concrete()
        if c is not None:
            return R(math.cos(float(c)))
        am = s._angle_multiple()
        if am:
            return R.lift(am[0].cos_sin_multiple(am[1])[0])
        return _trig_pair(s)[0]

    def sin(s):
        c = s.concrete()
        if c is not None:
            return R(math.sin(float(c)))
        am = s._angle_multiple()
        if am:
            return R.lift(am[0].cos_sin_multiple(am[1])[1])
        return _trig_pair(s)[1]

    def tan(s):
        c = s.concrete()
        if c is not None:
            return R(math.tan(float(c)))
        am = s._angle_multiple()
        if am:
            cc, ss = am[0].cos_sin_multiple(am[1])
            return R.lift(ss) / R.lift(cc)
        cc, ss = _trig_pair(s)
        return ss / cc

    def arccos(s):
        c = s.concrete()
        if c is not None:
            if abs(c) > 1:
                raise Unmodelled("arccos outside [-1,1]")
            return R(math.acos(float(c)))
        ctx = Ctx.cur
        fresh = ("ARCCOS", _key(s)) not in ctx.memo
        r = _uf("ARCCOS", s)
        if fresh:
            ctx.add(z3.And(r.z() >= 0, r.z() <= z3.RealVal("3.14159265358979323846264338328")))
        return r

    def arcsin(s):
        c = s.concrete()
        if c is not None:
            return R(math.asin(float(c)))
        return _uf("ARCSIN", s)

    def log(s):
        c = s.concrete()
        if c is not None:
            if c <= 0:
                raise NaNProduced("log of a non-positive number")
            return R(math.log(float(c)))
        if s.sign_syntactic() != 1:
            if not Ctx.cur.branch(s.z() > 0):
                raise NaNProduced("log of a non-positive number")
        return _uf("LOG", s)

    def log10(s):
        c = s.concrete()
        if c is not None:
            if c <= 0:
                raise Unmodelled("log10 of non-positive")
            return R(math.log10(float(c)))
        return _uf("LOG10", s)

    def exp(s):
        c = s.concrete()
        if c is not None:
            return R(math.exp(float(c)))
        return _uf("EXP", s)

    def arctan2(s, o):
        a, b = s.concrete(), R.lift(o).concrete()
        if a is not None and b is not None:
            return R(math.atan2(float(a), float(b)))
        raise Unmodelled("arctan2 of symbolic")


_OPS = {
    "lt": lambda a, b: a < b, "le": lambda a, b: a <= b, "gt": lambda a, b: a > b, "ge": lambda a, b: a >= b,
    "eq": lambda a, b: a == b, "ne": lambda a, b: a != b,
}


def _key(r):
    return frozenset(r.p.items())


def _root(base, m):
    """base ** (1/m) for a symbolic base: fresh g > 0 with g^m == base (forks on base > 0)"""
    ctx = Ctx.cur
    key = ("ROOT", m, _key(base))
    g = ctx.memo.get(key)
    if g is None:
        if base.sign_syntactic() != 1:
            if not ctx.branch(base.z() > 0):
                raise Unmodelled("fractional power of a non-positive symbolic number (numpy would give nan)")
        g = ctx.new_gen(f"root{m}!{len(ctx.names)}", positive=True)
        x = ctx.zv[g]
        pw = x
        for _ in range(m - 1):
            pw = pw * x
        ctx.add(z3.And(x > 0, pw == base.z()))
        ctx.memo[key] = g
        ctx.uf_apps.append(("ROOT", (base, m), g))
        _run_hooks(ctx, "ROOT", (base, m), g)
    return R.gen(g)


def _trig_pair(arg):
    """(cos, sin) of a symbolic angle: inverse of ARCCOS where the angle is +-ARCCOS(x); otherwise a pair of
    uninterpreted applications with the Pythagorean identity"""
    ctx = Ctx.cur
    if len(arg.p) == 1:
        (m, k), = arg.p.items()
        if len(m) == 1 and m[0][1] == 1 and k in (1, -1):
            for (name, a, g) in ctx.uf_apps:
                if name == "ARCCOS" and g == m[0][0]:
                    x = a
                    sn = (R(1) - x * x).sqrt()
                    return x, (sn if k == 1 else -sn)
    key = ("TRIG", _key(arg))
    pr = ctx.memo.get(key)
    if pr is None:
        c = _uf("COS", arg)
        s_ = _uf("SIN", arg)
        ctx.add(c.z() * c.z() + s_.z() * s_.z() == 1)
        # cos(-a) = cos(a), sin(-a) = -sin(a) against earlier pairs
        for k2, (c2, s2, a2) in list(ctx.memo.items()) if False else []:
            pass
        neg = ctx.memo.get(("TRIG", _key(-arg)))
        if neg is not None:
            ctx.add(z3.And(c.z() == neg[0].z(), s_.z() == -neg[1].z()))
        pr = (c, s_)
        ctx.memo[key] = pr
    return pr


def _uf(name, arg):
    ctx = Ctx.cur
    key = (name, _key(arg))
    g = ctx.memo.get(key)
    if g is None:
        g = ctx.new_gen(f"{name}!{len(ctx.names)}")
        ctx.memo[key] = g
        # functional consistency (Ackermann) with the earlier applications of the same function
        for (n2, a2, g2) in ctx.uf_apps:
            if n2 == name:
                ctx.add(z3.Implies(arg.z() == a2.z(), ctx.zv[g] == ctx.zv[g2]))
        ctx.uf_apps.append((name, arg, g))
        _run_hooks(ctx, name, arg, g)
    return R.gen(g)


def _run_hooks(ctx, name, arg, g):
    for h in list(ctx.axiom_hooks):
        h(ctx, name, arg, g)


def _pow_uf(base, expo):
    ctx = Ctx.cur
    bc = base.concrete()
    if bc is not None and bc == 1:
        return R(1)
    ec = expo.concrete() if isinstance(expo, R) else None
    if ec is not None and ec == 0:
        return R(1)
    key = ("POW", _key(base), _key(expo))
    g = ctx.memo.get(key)
    if g is None:
        g = ctx.new_gen(f"POW!{len(ctx.names)}")
        ctx.memo[key] = g
        for (n2, a2, g2) in ctx.uf_apps:
            if n2 == "POW":
                ctx.add(z3.Implies(z3.And(base.z() == a2[0].z(), expo.z() == a2[1].z()), ctx.zv[g] == ctx.zv[g2]))
        ctx.uf_apps.append(("POW", (base, expo), g))
        _run_hooks(ctx, "POW", (base, expo), g)
    return R.gen(g)


def _poly_sqrt(P):
    """Q with Q*Q == P for a polynomial P (dict monomial->Fraction, non-negative exponents), else None"""
    if not P or any(e < 0 for m in P for _, e in m):
        return None
    gens = sorted({g for m in P for g, _ in m})

    def key(m):
        d = dict(m)
        return (sum(e for _, e in m), tuple(d.get(g, 0) for g in gens))
    lt = max(P, key=key)
    lc = P[lt]
    if lc <= 0 or any(e % 2 for _, e in lt):
        return None
    n, d = math.isqrt(lc.numerator), math.isqrt(lc.denominator)
    if n * n != lc.numerator or d * d != lc.denominator:
        return None
    q0m = tuple((g, e // 2) for g, e in lt)
    q0c = Fraction(n, d)
    Q = {q0m: q0c}
    rem = dict(P)
    rem.pop(lt)
    q0d = dict(q0m)
    for _ in range(200):
        if not rem:
            return Q
        rt = max(rem, key=key)
        rd = dict(rt)
        t = {}
        for g, e in q0d.items():
            if rd.get(g, 0) < e:
                return None
        for g, e in rd.items():
            v = e - q0d.get(g, 0)
            if v:
                t[g] = v
        tm = tuple(sorted(t.items()))
        tc = rem[rt] / (2 * q0c)
        if tm in Q:
            return None
        # rem -= 2*t*Q + t^2
        for m, c in Q.items():
            mm = _mmul(m, tm)
            v = rem.get(mm, 0) - 2 * c * tc
            if v:
                rem[mm] = v
            else:
                rem.pop(mm, None)
        mm = _mmul(tm, tm)
        v = rem.get(mm, 0) - tc * tc
        if v:
            rem[mm] = v
        else:
            rem.pop(mm, None)
        Q[tm] = tc
    return None


def _exact_div(P, D):
    """P / D for polynomials (dict monomial->Fraction, non-negative exponents) if the division is exact, else None"""
    if not D:
        return None
    gens = sorted({g for m in P for g, _ in m} | {g for m in D for g, _ in m})

    def _mono_key(m):                      # graded lexicographic order (a proper term order)
        d = dict(m)
        return (sum(e for _, e in m), tuple(d.get(g, 0) for g in gens))
    dl = max(D, key=_mono_key)
    dlc = D[dl]
    dld = dict(dl)
    rem = dict(P)
    quo = {}
    steps = 0
    while rem:
        steps += 1
        if steps > 4000:
            return None
        lt = max(rem, key=_mono_key)
        ltd = dict(lt)
        # lt must be divisible by dl
        q = {}
        ok = True
        for g, e in dld.items():
            if ltd.get(g, 0) < e:
                ok = False
                break
        if not ok:
            return None
        for g, e in ltd.items():
            v = e - dld.get(g, 0)
            if v:
                q[g] = v
        qm = tuple(sorted(q.items()))
        qc = rem[lt] / dlc
        quo[qm] = quo.get(qm, 0) + qc
        for m, c in D.items():
            mm = _mmul(m, qm)
            v = rem.get(mm, 0) - c * qc
            if v:
                rem[mm] = v
            else:
                rem.pop(mm, None)
    return quo


def _reduce_sqrt(r):
    """keep forms canonical modulo the defining relations of sqrt and reciprocal generators:
    g^2 -> rad; terms with g^-2k are divided by rad^k when that division is exact;
    terms with q^k (q*D == 1) are divided by D^k when that division is exact"""
    ctx = Ctx.cur
    if ctx is None or not (ctx.sqrt_rad or ctx.inv_den):
        return r
    sr, iv = ctx.sqrt_rad, ctx.inv_den
    pos = neg = False
    for m in r.p:
        for g, e in m:
            if g in sr:
                if e >= 2:
                    pos = True
                elif e <= -2:
                    neg = True
            elif e >= 1 and g in iv:
                neg = True
    if not pos and not neg:
        return r
    if pos:
        acc = R(0)
        keep = {}
        for m, c in r.p.items():
            factor = None
            newm = []
            for g, e in m:
                if e >= 2 and g in sr:
                    q, rem = divmod(e, 2)
                    f = sr[g] ** q
                    factor = f if factor is None else factor * f
                    if rem:
                        newm.append((g, 1))
                else:
                    newm.append((g, e))
            if factor is None:
                keep[m] = c
            else:
                acc = acc + R({tuple(newm): c}) * factor
        r = R(keep) + acc
        neg = any((e <= -2 and g in sr) or (e >= 1 and g in iv) for m in r.p for g, e in m)
    if not neg:
        return r
    cands = sorted({g for m in r.p for g, e in m if (g in sr and e <= -2) or (g in iv and e >= 1)})
    for g in cands:
        groups = {}
        for m, c in r.p.items():
            e = dict(m).get(g, 0)
            groups.setdefault(e, {})[tuple(x for x in m if x[0] != g)] = c
        out = {}
        changed = False
        for e, poly in groups.items():
            done = False
            k = 0
            if g in sr and e <= -2:
                k = (-e) // 2
                base = sr[g]
                rest_e = e + 2 * k
            elif g in iv and e >= 1:
                k = e
                base = iv[g]
                rest_e = 0
            if k:
                den = base ** k if k > 1 else base
                if all(ee >= 0 for m in den.p for _, ee in m):
                    shift = {}
                    for m in poly:
                        for gg, ee in m:
                            if ee < 0:
                                shift[gg] = max(shift.get(gg, 0), -ee)
                    sm = tuple(sorted(shift.items()))
                    P = {_mmul(m, sm): c for m, c in poly.items()} if sm else poly
                    q = _exact_div(P, den.p)
                    if q is not None:
                        inv_sm = tuple((gg, -ee) for gg, ee in sm)
                        for m, c in q.items():
                            mm = _mmul(m, inv_sm) if sm else m
                            if rest_e:
                                mm = _mmul(mm, ((g, rest_e),))
                            v = out.get(mm, 0) + c
                            if v:
                                out[mm] = v
                            else:
                                out.pop(mm, None)
                        done = changed = True
            if not done:
                for m, c in poly.items():
                    mm = _mmul(m, ((g, e),)) if e else m
                    v = out.get(mm, 0) + c
                    if v:
                        out[mm] = v
                    else:
                        out.pop(mm, None)
        if changed:
            r = R(out)
    return r


class I(R):
    """symbolic integer: an R whose generators are integer-valued, with forking __index__"""

    __slots__ = ()

    def __hash__(s):
        c = s.concrete()
        if c is not None:
            return hash(int(c))
        raise Unmodelled("hash of a symbolic integer")

    def __index__(s):
        c = s.concrete()
        if c is not None:
            return int(c)
        ctx = Ctx.cur
        # fork on value: solver proposes candidates; DFS explores the alternatives
        for _ in range(4096):
            v = _some_value(ctx, s)
            if ctx.branch(s.z() == v):
                return v
        raise BoundExceeded("integer fork exceeded 4096 values")

    __int__ = __index__

    def __floordiv__(s, o):
        o = R.lift(o)
        a, b = s.concrete(), o.concrete()
        if a is not None and b is not None:
            return I(a // b)
        return I(int(s) // int(o))

    def __mod__(s, o):
        o = R.lift(o)
        return I(int(s) % int(o))

    def __repr__(s):
        c = s.concrete()
        if c is not None:
            return str(int(c))
        return Ctx.cur.token(s)

    __str__ = __repr__

    def __format__(s, spec):
        c = s.concrete()
        if c is not None:
            return format(int(c), spec)
        return Ctx.cur.token(s)


def _some_value(ctx, s):
    """a feasible integer value of s under pc"""
    e = s.z()
    need_expr = z3.simplify(e >= -10 ** 9)
    r = ctx.check(need_expr, want_model=True)
    if r != "sat":
        raise SolverUnknown("no candidate value for symbolic integer")
    mod = ctx.last_solver.model()
    v = mod.eval(e, model_completion=True)
    v = _val(v)
    if isinstance(v, Fraction):
        if v.denominator != 1:
            raise SolverUnknown("non-integer candidate")
        v = int(v)
    return int(v)


def _mk(d, a, b):
    if isinstance(a, I) and isinstance(b, I):
        ok = True
        for m, c in d.items():
            if c.denominator != 1:
                ok = False
                break
            for _g, e in m:
                if e < 0:
                    ok = False
                    break
            if not ok:
                break
        if ok:
            r = I.__new__(I)
            r.p = d
            r._z = None
            return r
    return R(d)


def lift_arr(a):
    a = np.asarray(a, dtype=object) if not isinstance(a, np.ndarray) else a
    out = np.empty(a.shape, dtype=object)
    for idx in np.ndindex(a.shape):
        v = a[idx]
        out[idx] = v if isinstance(v, R) else R(v)
    return out


def vec(*xs):
    return lift_arr(list(xs))


# ---------------------------------------------------------------------------------------------
def explore(fn, on_path, max_paths=100000, timeout_ms=None, deadline=None, start_prefix=()):
    """Re-execution DFS over fn(ctx); on_path(ctx, result, exception) is called per completed path.
    Returns {"paths": n, "truncated": bool, "open_prefix": [...]}."""
    prefix = list(start_prefix)
    fixed = len(prefix)
    n = 0
    while True:
        ctx = Ctx(prefix, timeout_ms)
        Ctx.cur = ctx
        res, exc = None, None
        try:
            res = fn(ctx)
            ctx.status = "ok"
        except Infeasible:
            ctx.status = "infeasible"
        except Unmodelled as ex:
            ctx.status = "unmodelled"
            exc = ex
        except BoundExceeded as ex:
            ctx.status = "bound"
            exc = ex
        except SolverUnknown as ex:
            ctx.status = "unknown"
            exc = ex
        except Exception as ex:  # library / harness exception escaping the harness
            ctx.status = "exception"
            exc = ex
        if ctx.status != "infeasible" and ctx.assumed_feasible:
            r = ctx.full_check()
            if r == "unsat":
                ctx.status = "infeasible"
            elif r != "sat":
                ctx.status = "unknown"
        n += 1
        on_path(ctx, res, exc)
        Ctx.cur = None
        tr = ctx.trail
        i = len(tr) - 1
        while i >= fixed and not tr[i][1]:
            i -= 1
        if i < fixed:
            return {"paths": n, "truncated": False, "open_prefix": None}
        if n >= max_paths or (deadline is not None and time.time() > deadline):
            return {"paths": n, "truncated": True, "open_prefix": [int(t[0]) for t in tr[:i + 1]]}
        prefix = [tr[j] for j in range(i)] + [(not tr[i][0], False, True)]
