"""symx: bounded symbolic execution of numpy-style Python with z3 (see /verif/DESIGN.md)."""
